//! `tokio` as seen by svgbob_server in the simulation build.
pub use real_tokio::*;

pub mod task {
    //! `tokio::task` with the two entry points that would leave the simulator's
    //! control replaced: work handed to the blocking pool runs as an ordinary
    //! task of the current-thread runtime instead of on a pool thread, so which
    //! request's conversion runs when is still decided by the (deterministic)
    //! scheduler and overlaps between requests remain reproducible.
    pub use real_tokio::task::*;

    pub fn spawn_blocking<F, R>(f: F) -> JoinHandle<R>
    where
        F: FnOnce() -> R + Send + 'static,
        R: Send + 'static,
    {
        real_tokio::task::spawn(async move {
            // not before the simulator lets it (see srvsim::blocking_gate)
            let _ = svgbob_verif_srvsim::blocking_gate().await;
            for _ in 0..svgbob_verif_srvsim::blocking_delay() {
                real_tokio::task::yield_now().await;
            }
            f()
        })
    }

    pub fn block_in_place<F, R>(f: F) -> R
    where
        F: FnOnce() -> R,
    {
        f()
    }
}

pub mod net {
    //! `tokio::net` with the TCP listener and stream replaced, for servers that
    //! run their own accept loop instead of `axum::Server::bind`: `bind` installs
    //! the simulator, `accept` yields the simulator's in-memory connections (and
    //! the accept errors it injects, which such a loop has to survive itself).
    pub use real_tokio::net::*;
    use std::io;
    use std::net::SocketAddr;
    use std::pin::Pin;
    use std::task::{Context, Poll};
    use svgbob_verif_srvsim::net::{NetRef, SimStream};

    pub struct TcpListener {
        net: NetRef,
        addr: SocketAddr,
    }

    pub struct TcpStream {
        inner: SimStream,
        peer: SocketAddr,
        local: SocketAddr,
    }

    impl TcpListener {
        pub async fn bind<A: real_tokio::net::ToSocketAddrs>(addr: A) -> io::Result<TcpListener> {
            let addr = real_tokio::net::lookup_host(addr).await?.next().unwrap_or_else(|| ([0, 0, 0, 0], 3000).into());
            Ok(TcpListener { net: svgbob_verif_srvsim::install_listener(addr), addr })
        }
        pub fn local_addr(&self) -> io::Result<SocketAddr> {
            Ok(self.addr)
        }
        pub async fn accept(&self) -> io::Result<(TcpStream, SocketAddr)> {
            std::future::poll_fn(|cx| self.poll_accept(cx)).await
        }
        pub fn poll_accept(&self, cx: &mut Context<'_>) -> Poll<io::Result<(TcpStream, SocketAddr)>> {
            match svgbob_verif_srvsim::net::poll_accept_raw(&self.net, cx) {
                Poll::Pending => Poll::Pending,
                Poll::Ready(Err(e)) => Poll::Ready(Err(e)),
                Poll::Ready(Ok(s)) => {
                    let peer: SocketAddr = ([127, 0, 0, 1], 40000).into();
                    Poll::Ready(Ok((TcpStream { inner: s, peer, local: self.addr }, peer)))
                }
            }
        }
    }

    impl TcpStream {
        pub fn set_nodelay(&self, _on: bool) -> io::Result<()> {
            Ok(())
        }
        pub fn nodelay(&self) -> io::Result<bool> {
            Ok(true)
        }
        pub fn peer_addr(&self) -> io::Result<SocketAddr> {
            Ok(self.peer)
        }
        pub fn local_addr(&self) -> io::Result<SocketAddr> {
            Ok(self.local)
        }
        pub fn set_ttl(&self, _ttl: u32) -> io::Result<()> {
            Ok(())
        }
    }

    impl real_tokio::io::AsyncRead for TcpStream {
        fn poll_read(mut self: Pin<&mut Self>, cx: &mut Context<'_>, buf: &mut real_tokio::io::ReadBuf<'_>) -> Poll<io::Result<()>> {
            Pin::new(&mut self.inner).poll_read(cx, buf)
        }
    }

    impl real_tokio::io::AsyncWrite for TcpStream {
        fn poll_write(mut self: Pin<&mut Self>, cx: &mut Context<'_>, data: &[u8]) -> Poll<io::Result<usize>> {
            Pin::new(&mut self.inner).poll_write(cx, data)
        }
        fn poll_flush(mut self: Pin<&mut Self>, cx: &mut Context<'_>) -> Poll<io::Result<()>> {
            Pin::new(&mut self.inner).poll_flush(cx)
        }
        fn poll_shutdown(mut self: Pin<&mut Self>, cx: &mut Context<'_>) -> Poll<io::Result<()>> {
            Pin::new(&mut self.inner).poll_shutdown(cx)
        }
    }
}

pub mod runtime {
    pub use real_tokio::runtime::*;
    use std::future::Future;

    pub struct Builder {
        inner: real_tokio::runtime::Builder,
    }

    impl Builder {
        pub fn new_multi_thread() -> Builder {
            Builder { inner: real_tokio::runtime::Builder::new_current_thread() }
        }
        pub fn new_current_thread() -> Builder {
            Builder { inner: real_tokio::runtime::Builder::new_current_thread() }
        }
        pub fn enable_all(&mut self) -> &mut Self {
            self.inner.enable_all();
            self
        }
        pub fn enable_io(&mut self) -> &mut Self {
            self.inner.enable_io();
            self
        }
        pub fn enable_time(&mut self) -> &mut Self {
            self.inner.enable_time();
            self
        }
        pub fn worker_threads(&mut self, _n: usize) -> &mut Self {
            self
        }
        pub fn max_blocking_threads(&mut self, n: usize) -> &mut Self {
            self.inner.max_blocking_threads(n);
            self
        }
        pub fn thread_stack_size(&mut self, n: usize) -> &mut Self {
            self.inner.thread_stack_size(n);
            self
        }
        pub fn thread_name(&mut self, n: impl Into<String>) -> &mut Self {
            self.inner.thread_name(n);
            self
        }
        pub fn build(&mut self) -> std::io::Result<Runtime> {
            // idleness signal for the simulator (run queue empty)
            self.inner.on_thread_park(svgbob_verif_srvsim::on_park);
            // the clock belongs to the simulator: it only moves by `Tick` actions
            self.inner.start_paused(true);
            Ok(Runtime { inner: self.inner.build()? })
        }
    }

    pub struct Runtime {
        inner: real_tokio::runtime::Runtime,
    }

    struct AssertSend<T>(T);
    // SAFETY: the value is created on the calling thread, moved to exactly one
    // other thread and only used there while the caller is blocked in `scope`.
    unsafe impl<T> Send for AssertSend<T> {}

    impl Runtime {
        /// Production runs handlers on tokio worker threads, whose stacks are
        /// 2 MiB (std's default for spawned threads); run everything on such
        /// a thread so stack exhaustion behaves as in production.
        pub fn block_on<F: Future>(&self, future: F) -> F::Output {
            let fut = AssertSend(future);
            let inner = AssertSend(&self.inner);
            let out = std::thread::scope(|s| {
                std::thread::Builder::new()
                    .name("sim-worker".into())
                    .stack_size(2 << 20)
                    .spawn_scoped(s, move || {
                        let fut = fut;
                        let inner = inner;
                        AssertSend(inner.0.block_on(fut.0))
                    })
                    .expect("spawn sim worker")
                    .join()
            });
            match out {
                Ok(v) => v.0,
                Err(p) => std::panic::resume_unwind(p),
            }
        }
        pub fn handle(&self) -> &Handle {
            self.inner.handle()
        }
        pub fn spawn<F>(&self, future: F) -> real_tokio::task::JoinHandle<F::Output>
        where
            F: Future + Send + 'static,
            F::Output: Send + 'static,
        {
            self.inner.spawn(future)
        }
    }
}
