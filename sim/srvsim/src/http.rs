//! Byte-level HTTP/1 client side: request construction from an explicit spec
//! and an incremental response parser.

use simcommon::{escape_bytes, json, unescape_bytes, Value};

pub const BODY_LIMIT: usize = 2 * 1024 * 1024; // axum's DefaultBodyLimit

#[derive(Clone, Debug, PartialEq)]
pub enum BodySpec {
    None,
    Bytes(Vec<u8>),
    /// `len` copies of `byte` followed by `tail` (large bodies without large replay files)
    Fill { byte: u8, len: usize, tail: String },
    /// `unit` repeated `times` times
    Repeat { unit: String, times: usize },
}

impl BodySpec {
    pub fn bytes(&self) -> Vec<u8> {
        match self {
            BodySpec::None => vec![],
            BodySpec::Bytes(b) => b.clone(),
            BodySpec::Fill { byte, len, tail } => {
                let mut v = vec![*byte; *len];
                v.extend_from_slice(tail.as_bytes());
                v
            }
            BodySpec::Repeat { unit, times } => unit.repeat(*times).into_bytes(),
        }
    }
}

#[derive(Clone, Debug, PartialEq)]
pub enum Framing {
    /// no body headers at all
    None,
    ContentLength,
    /// chunked transfer-encoding with these chunk sizes (must sum to the body length)
    Chunked(Vec<usize>),
    /// Content-Length that does not match the body actually sent
    Lying(usize),
}

#[derive(Clone, Debug, PartialEq)]
pub struct ReqSpec {
    pub method: String,
    pub path: String,
    pub version: String, // "1.1" | "1.0"
    pub headers: Vec<(String, String)>,
    pub body: BodySpec,
    pub framing: Framing,
    /// malformed traffic: these bytes are sent verbatim instead
    pub raw: Option<Vec<u8>>,
}

impl ReqSpec {
    pub fn has_header(&self, name: &str, value_contains: &str) -> bool {
        self.headers
            .iter()
            .any(|(k, v)| k.eq_ignore_ascii_case(name) && v.to_ascii_lowercase().contains(&value_contains.to_ascii_lowercase()))
    }

    pub fn to_bytes(&self) -> Vec<u8> {
        if let Some(r) = &self.raw {
            return r.clone();
        }
        let body = self.body.bytes();
        let mut out = Vec::with_capacity(body.len() + 256);
        out.extend_from_slice(format!("{} {} HTTP/{}\r\n", self.method, self.path, self.version).as_bytes());
        out.extend_from_slice(b"Host: sim.invalid\r\n");
        for (k, v) in &self.headers {
            out.extend_from_slice(format!("{}: {}\r\n", k, v).as_bytes());
        }
        match &self.framing {
            Framing::None => {
                out.extend_from_slice(b"\r\n");
            }
            Framing::ContentLength => {
                out.extend_from_slice(format!("Content-Length: {}\r\n\r\n", body.len()).as_bytes());
                out.extend_from_slice(&body);
            }
            Framing::Lying(n) => {
                out.extend_from_slice(format!("Content-Length: {}\r\n\r\n", n).as_bytes());
                out.extend_from_slice(&body);
            }
            Framing::Chunked(sizes) => {
                out.extend_from_slice(b"Transfer-Encoding: chunked\r\n\r\n");
                let mut off = 0;
                for s in sizes {
                    let s = (*s).min(body.len() - off);
                    if s == 0 {
                        continue;
                    }
                    out.extend_from_slice(format!("{:x}\r\n", s).as_bytes());
                    out.extend_from_slice(&body[off..off + s]);
                    out.extend_from_slice(b"\r\n");
                    off += s;
                }
                if off < body.len() {
                    out.extend_from_slice(format!("{:X}\r\n", body.len() - off).as_bytes());
                    out.extend_from_slice(&body[off..]);
                    out.extend_from_slice(b"\r\n");
                }
                out.extend_from_slice(b"0\r\n\r\n");
            }
        }
        out
    }

    /// Does the connection stay usable for a following request?
    pub fn keeps_alive(&self) -> bool {
        if self.raw.is_some() || matches!(self.framing, Framing::Lying(_)) {
            return false;
        }
        if self.has_header("connection", "close") {
            return false;
        }
        if self.version == "1.0" {
            return self.has_header("connection", "keep-alive");
        }
        true
    }

    pub fn to_json(&self) -> Value {
        let body = match &self.body {
            BodySpec::None => Value::Null,
            BodySpec::Bytes(b) => json!({"bytes": escape_bytes(b)}),
            BodySpec::Fill { byte, len, tail } => json!({"fill": *byte, "len": len, "tail": tail}),
            BodySpec::Repeat { unit, times } => json!({"repeat": unit, "times": times}),
        };
        let framing = match &self.framing {
            Framing::None => json!("none"),
            Framing::ContentLength => json!("content-length"),
            Framing::Chunked(s) => json!({"chunked": s}),
            Framing::Lying(n) => json!({"lying-content-length": n}),
        };
        json!({
            "method": self.method, "path": self.path, "version": self.version,
            "headers": self.headers.iter().map(|(k, v)| json!([k, v])).collect::<Vec<_>>(),
            "body": body, "framing": framing,
            "raw": self.raw.as_ref().map(|r| escape_bytes(r)),
        })
    }

    pub fn from_json(v: &Value) -> ReqSpec {
        let s = |k: &str, d: &str| v.get(k).and_then(|x| x.as_str()).unwrap_or(d).to_string();
        let body = match v.get("body") {
            Some(b) if b.get("bytes").is_some() => BodySpec::Bytes(unescape_bytes(b["bytes"].as_str().unwrap_or(""))),
            Some(b) if b.get("repeat").is_some() => BodySpec::Repeat {
                unit: b["repeat"].as_str().unwrap_or("").to_string(),
                times: b["times"].as_u64().unwrap_or(1) as usize,
            },
            Some(b) if b.get("fill").is_some() => BodySpec::Fill {
                byte: b["fill"].as_u64().unwrap_or(32) as u8,
                len: b["len"].as_u64().unwrap_or(0) as usize,
                tail: b["tail"].as_str().unwrap_or("").to_string(),
            },
            _ => BodySpec::None,
        };
        let framing = match v.get("framing") {
            Some(f) if f.as_str() == Some("content-length") => Framing::ContentLength,
            Some(f) if f.get("chunked").is_some() => Framing::Chunked(f["chunked"].as_array().map(|a| a.iter().map(|x| x.as_u64().unwrap_or(1) as usize).collect()).unwrap_or_default()),
            Some(f) if f.get("lying-content-length").is_some() => Framing::Lying(f["lying-content-length"].as_u64().unwrap_or(0) as usize),
            _ => Framing::None,
        };
        ReqSpec {
            method: s("method", "GET"),
            path: s("path", "/"),
            version: s("version", "1.1"),
            headers: v
                .get("headers")
                .and_then(|h| h.as_array())
                .map(|a| a.iter().map(|p| (p[0].as_str().unwrap_or("").to_string(), p[1].as_str().unwrap_or("").to_string())).collect())
                .unwrap_or_default(),
            body,
            framing,
            raw: v.get("raw").and_then(|r| r.as_str()).map(unescape_bytes),
        }
    }
}

// ------------------------------------------------------------- responses

#[derive(Clone, Debug, Default)]
pub struct Resp {
    pub status: u16,
    pub version: String,
    pub headers: Vec<(String, String)>,
    pub body: Vec<u8>,
    /// all of the body has arrived
    pub complete: bool,
    /// the header block has arrived completely
    pub head_complete: bool,
    pub chunked: bool,
    pub content_length: Option<usize>,
}

impl Resp {
    pub fn header(&self, name: &str) -> Option<&str> {
        self.headers.iter().find(|(k, _)| k.eq_ignore_ascii_case(name)).map(|(_, v)| v.as_str())
    }
}

#[derive(Debug, Default)]
pub struct Parsed {
    /// final (non-1xx) responses in order; the last one may be incomplete
    pub responses: Vec<Resp>,
    pub interim: usize,
    /// not HTTP at all / broken framing
    pub malformed: Option<String>,
    /// bytes after the last complete response that do not start a response
    pub trailing_garbage: bool,
}

fn find(hay: &[u8], needle: &[u8]) -> Option<usize> {
    hay.windows(needle.len()).position(|w| w == needle)
}

/// Parse everything the client has received on one connection.
/// `head_requests[i]` tells whether request i was a HEAD (no response body).
/// `eof`: the server has closed its side (needed for close-delimited bodies).
pub fn parse_stream(bytes: &[u8], head_requests: &[bool], eof: bool) -> Parsed {
    let mut p = Parsed::default();
    let mut off = 0usize;
    while off < bytes.len() {
        let rest = &bytes[off..];
        let head_end = find(rest, b"\r\n\r\n");
        // status line sanity as soon as the first line is there
        let line_end = find(rest, b"\r\n");
        let first = &rest[..line_end.unwrap_or(rest.len())];
        let looks = b"HTTP/1.";
        let n = first.len().min(looks.len());
        if first[..n] != looks[..n] {
            p.malformed = Some(format!("response does not start with HTTP/1.x: {}", escape_bytes(&first[..first.len().min(40)])));
            return p;
        }
        let mut r = Resp::default();
        if let Some(le) = line_end {
            let line = String::from_utf8_lossy(&rest[..le]).to_string();
            let mut it = line.splitn(3, ' ');
            r.version = it.next().unwrap_or("").to_string();
            match it.next().and_then(|s| s.parse::<u16>().ok()) {
                Some(s) if (100..=599).contains(&s) => r.status = s,
                _ => {
                    p.malformed = Some(format!("bad status line: {}", simcommon::preview(&line, 60)));
                    return p;
                }
            }
        }
        let he = match head_end {
            Some(h) => h,
            None => {
                // header block incomplete; a partially received interim (1xx)
                // response is not the beginning of the final one
                if !(100..200).contains(&r.status) {
                    p.responses.push(r);
                }
                return p;
            }
        };
        let head = String::from_utf8_lossy(&rest[..he]).to_string();
        for l in head.split("\r\n").skip(1) {
            match l.split_once(':') {
                Some((k, v)) => r.headers.push((k.trim().to_string(), v.trim().to_string())),
                None => {
                    p.malformed = Some(format!("bad header line: {}", simcommon::preview(l, 60)));
                    return p;
                }
            }
        }
        r.head_complete = true;
        let body_start = off + he + 4;
        if (100..200).contains(&r.status) {
            p.interim += 1;
            off = body_start;
            continue;
        }
        let idx = p.responses.len();
        let is_head = head_requests.get(idx).copied().unwrap_or(false);
        r.chunked = r.header("transfer-encoding").map(|v| v.to_ascii_lowercase().contains("chunked")).unwrap_or(false);
        r.content_length = r.header("content-length").and_then(|v| v.parse::<usize>().ok());
        if is_head || r.status == 204 || r.status == 304 {
            r.complete = true;
            p.responses.push(r);
            off = body_start;
            continue;
        }
        if r.chunked {
            let mut o = body_start;
            loop {
                let rest = &bytes[o.min(bytes.len())..];
                let le = match find(rest, b"\r\n") {
                    Some(l) => l,
                    None => {
                        p.responses.push(r);
                        return p;
                    }
                };
                let size_s = String::from_utf8_lossy(&rest[..le]).to_string();
                let size = match usize::from_str_radix(size_s.split(';').next().unwrap_or("").trim(), 16) {
                    Ok(s) => s,
                    Err(_) => {
                        p.malformed = Some(format!("bad chunk size: {}", simcommon::preview(&size_s, 30)));
                        return p;
                    }
                };
                let data_start = o + le + 2;
                if size == 0 {
                    // trailers until empty line
                    match find(&bytes[data_start.min(bytes.len())..], b"\r\n") {
                        Some(0) => {
                            r.complete = true;
                            p.responses.push(r);
                            off = data_start + 2;
                            break;
                        }
                        Some(_) => match find(&bytes[data_start..], b"\r\n\r\n") {
                            Some(t) => {
                                r.complete = true;
                                p.responses.push(r);
                                off = data_start + t + 4;
                                break;
                            }
                            None => {
                                p.responses.push(r);
                                return p;
                            }
                        },
                        None => {
                            p.responses.push(r);
                            return p;
                        }
                    }
                } else {
                    let avail = bytes.len().saturating_sub(data_start);
                    let take = size.min(avail);
                    r.body.extend_from_slice(&bytes[data_start..data_start + take]);
                    if avail < size + 2 {
                        p.responses.push(r);
                        return p;
                    }
                    if &bytes[data_start + size..data_start + size + 2] != b"\r\n" {
                        p.malformed = Some("chunk not terminated by CRLF".into());
                        return p;
                    }
                    o = data_start + size + 2;
                }
            }
            continue;
        }
        match r.content_length {
            Some(n) => {
                let avail = bytes.len() - body_start;
                let take = n.min(avail);
                r.body.extend_from_slice(&bytes[body_start..body_start + take]);
                if avail >= n {
                    r.complete = true;
                    p.responses.push(r);
                    off = body_start + n;
                } else {
                    p.responses.push(r);
                    return p;
                }
            }
            None => {
                // close-delimited
                r.body.extend_from_slice(&bytes[body_start..]);
                r.complete = eof;
                p.responses.push(r);
                return p;
            }
        }
    }
    p
}

#[cfg(test)]
mod tests {
    use super::*;
    #[test]
    fn parse_two() {
        let s = b"HTTP/1.1 200 OK\r\ncontent-length: 3\r\n\r\nabcHTTP/1.1 400 Bad Request\r\ncontent-length: 0\r\n\r\n";
        let p = parse_stream(s, &[false, false], false);
        assert!(p.malformed.is_none());
        assert_eq!(p.responses.len(), 2);
        assert_eq!(p.responses[0].body, b"abc");
        assert!(p.responses[1].complete);
        let p = parse_stream(&s[..30], &[false], false);
        assert_eq!(p.responses.len(), 1);
        assert!(!p.responses[0].complete);
        let c = b"HTTP/1.1 200 OK\r\ntransfer-encoding: chunked\r\n\r\n3\r\nabc\r\n0\r\n\r\n";
        let p = parse_stream(c, &[false], false);
        assert!(p.responses[0].complete);
        assert_eq!(p.responses[0].body, b"abc");
    }
}
