//! The only source of randomness in the simulators: xoshiro256** seeded
//! through splitmix64. One integer decides everything.

#[inline]
pub fn splitmix64(state: &mut u64) -> u64 {
    *state = state.wrapping_add(0x9E37_79B9_7F4A_7C15);
    let mut z = *state;
    z = (z ^ (z >> 30)).wrapping_mul(0xBF58_476D_1CE4_E5B9);
    z = (z ^ (z >> 27)).wrapping_mul(0x94D0_49BB_1331_11EB);
    z ^ (z >> 31)
}

/// Derive an independent seed from (seed, tag, index).
pub fn mix(seed: u64, tag: &str, idx: u64) -> u64 {
    let mut s = seed ^ 0x5bd1_e995_9d2f_3a17;
    let mut out = splitmix64(&mut s);
    for b in tag.bytes() {
        s ^= b as u64;
        out ^= splitmix64(&mut s);
    }
    s ^= idx.wrapping_mul(0xD6E8_FEB8_6659_FD93);
    out ^= splitmix64(&mut s);
    out ^ splitmix64(&mut s)
}

#[derive(Clone, Debug)]
pub struct Rng {
    s: [u64; 4],
    pub draws: u64,
}

impl Rng {
    pub fn new(seed: u64) -> Self {
        let mut sm = seed;
        let s = [
            splitmix64(&mut sm),
            splitmix64(&mut sm),
            splitmix64(&mut sm),
            splitmix64(&mut sm),
        ];
        Rng { s, draws: 0 }
    }

    #[inline]
    pub fn next_u64(&mut self) -> u64 {
        self.draws += 1;
        let result = self.s[1].wrapping_mul(5).rotate_left(7).wrapping_mul(9);
        let t = self.s[1] << 17;
        self.s[2] ^= self.s[0];
        self.s[3] ^= self.s[1];
        self.s[1] ^= self.s[2];
        self.s[0] ^= self.s[3];
        self.s[2] ^= t;
        self.s[3] = self.s[3].rotate_left(45);
        result
    }

    /// uniform in 0..n (n > 0)
    #[inline]
    pub fn below(&mut self, n: u64) -> u64 {
        debug_assert!(n > 0);
        // multiply-shift; bias is irrelevant here
        ((self.next_u64() as u128 * n as u128) >> 64) as u64
    }

    #[inline]
    pub fn usize_below(&mut self, n: usize) -> usize {
        self.below(n as u64) as usize
    }

    /// uniform in lo..=hi
    #[inline]
    pub fn range(&mut self, lo: u64, hi: u64) -> u64 {
        lo + self.below(hi - lo + 1)
    }

    #[inline]
    pub fn urange(&mut self, lo: usize, hi: usize) -> usize {
        self.range(lo as u64, hi as u64) as usize
    }

    /// true with probability num/den
    #[inline]
    pub fn chance(&mut self, num: u64, den: u64) -> bool {
        self.below(den) < num
    }

    pub fn f64(&mut self) -> f64 {
        (self.next_u64() >> 11) as f64 / (1u64 << 53) as f64
    }

    pub fn pick<'a, T>(&mut self, v: &'a [T]) -> &'a T {
        &v[self.usize_below(v.len())]
    }

    /// pick an index according to integer weights
    pub fn weighted(&mut self, w: &[u32]) -> usize {
        let total: u64 = w.iter().map(|x| *x as u64).sum();
        let mut r = self.below(total.max(1));
        for (i, x) in w.iter().enumerate() {
            if r < *x as u64 {
                return i;
            }
            r -= *x as u64;
        }
        w.len() - 1
    }

    pub fn shuffle<T>(&mut self, v: &mut [T]) {
        for i in (1..v.len()).rev() {
            let j = self.usize_below(i + 1);
            v.swap(i, j);
        }
    }

    pub fn fill(&mut self, buf: &mut [u8]) {
        for chunk in buf.chunks_mut(8) {
            let x = self.next_u64().to_le_bytes();
            chunk.copy_from_slice(&x[..chunk.len()]);
        }
    }
}
