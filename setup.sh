#!/bin/sh
# Build the framework offline from files on disk (cargo registry cache + /repo).
cd "$(dirname "$0")" || exit 2
export CARGO_NET_OFFLINE=true
exec ./check --setup
