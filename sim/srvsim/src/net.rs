//! In-memory listener and byte streams owned by the simulator.

use std::collections::VecDeque;
use std::io;
use std::pin::Pin;
use std::sync::{Arc, Mutex};
use std::task::{Context, Poll, Waker};
use tokio::io::{AsyncRead, AsyncWrite, ReadBuf};

#[derive(Default)]
pub struct ConnState {
    pub id: usize,
    /// bytes delivered by the client and not yet read by the server
    pub inbound: VecDeque<u8>,
    /// client sent FIN: reads return EOF once `inbound` is empty
    pub in_eof: bool,
    /// connection reset by the client: reads and writes fail
    pub reset: bool,
    /// client fully closed: writes fail (EPIPE), reads see EOF
    pub closed_by_client: bool,
    /// everything the server has written so far
    pub outbound: Vec<u8>,
    /// how many more bytes the server may write (the client's receive window)
    pub window: usize,
    pub read_waker: Option<Waker>,
    pub write_waker: Option<Waker>,
    /// the server dropped or shut down its side
    pub server_shutdown: bool,
    pub server_dropped: bool,
    pub reads: u64,
    pub writes: u64,
    pub short_writes: u64,
    pub write_blocked: u64,
    pub read_errors: u64,
    pub write_errors: u64,
}

#[derive(Default)]
pub struct Net {
    pub conns: Vec<Arc<Mutex<ConnState>>>,
    pub accept_q: VecDeque<SimStream>,
    pub accept_waker: Option<Waker>,
    /// bumped by every transport operation and wake: quiescence = no change
    pub activity: u64,
    pub accepts: u64,
    pub accept_polls: u64,
    pub log: Vec<String>,
    /// the server runs its own accept loop over the `tokio::net::TcpListener`
    /// stand-in (then accept errors can be injected: they are the server's to handle)
    pub manual_accept: bool,
    /// errors to hand to the next accept() calls
    pub accept_errors: VecDeque<i32>,
    pub accept_errors_fired: u64,
    /// descriptor exhaustion in progress: every accept() fails with EMFILE
    pub accept_outage: bool,
}

pub type NetRef = Arc<Mutex<Net>>;

impl Net {
    pub fn ev(&mut self, s: String) {
        self.activity += 1;
        self.log.push(s);
    }
}

pub struct SimStream {
    pub st: Arc<Mutex<ConnState>>,
    pub net: NetRef,
}

impl Drop for SimStream {
    fn drop(&mut self) {
        let mut c = self.st.lock().unwrap();
        c.server_dropped = true;
        let id = c.id;
        drop(c);
        if let Ok(mut n) = self.net.lock() {
            n.ev(format!("srv-drop c{}", id));
        }
    }
}

impl AsyncRead for SimStream {
    fn poll_read(self: Pin<&mut Self>, cx: &mut Context<'_>, buf: &mut ReadBuf<'_>) -> Poll<io::Result<()>> {
        let mut c = self.st.lock().unwrap();
        c.reads += 1;
        let id = c.id;
        if c.reset {
            c.read_errors += 1;
            drop(c);
            self.net.lock().unwrap().ev(format!("read c{} -> ECONNRESET", id));
            return Poll::Ready(Err(io::Error::from(io::ErrorKind::ConnectionReset)));
        }
        if !c.inbound.is_empty() {
            let n = buf.remaining().min(c.inbound.len());
            let (a, b) = c.inbound.as_slices();
            let ta = n.min(a.len());
            buf.put_slice(&a[..ta]);
            if n > ta {
                buf.put_slice(&b[..n - ta]);
            }
            c.inbound.drain(..n);
            drop(c);
            self.net.lock().unwrap().ev(format!("read c{} -> {}", id, n));
            return Poll::Ready(Ok(()));
        }
        if c.in_eof || c.closed_by_client {
            drop(c);
            self.net.lock().unwrap().ev(format!("read c{} -> EOF", id));
            return Poll::Ready(Ok(()));
        }
        c.read_waker = Some(cx.waker().clone());
        Poll::Pending
    }
}

impl AsyncWrite for SimStream {
    fn poll_write(self: Pin<&mut Self>, cx: &mut Context<'_>, data: &[u8]) -> Poll<io::Result<usize>> {
        let mut c = self.st.lock().unwrap();
        c.writes += 1;
        let id = c.id;
        if c.reset || c.closed_by_client {
            c.write_errors += 1;
            let kind = if c.reset { io::ErrorKind::ConnectionReset } else { io::ErrorKind::BrokenPipe };
            drop(c);
            self.net.lock().unwrap().ev(format!("write c{} n={} -> {:?}", id, data.len(), kind));
            return Poll::Ready(Err(io::Error::from(kind)));
        }
        if data.is_empty() {
            return Poll::Ready(Ok(0));
        }
        if c.window == 0 {
            c.write_blocked += 1;
            c.write_waker = Some(cx.waker().clone());
            return Poll::Pending;
        }
        let n = data.len().min(c.window);
        if n < data.len() {
            c.short_writes += 1;
        }
        c.outbound.extend_from_slice(&data[..n]);
        if c.window != usize::MAX {
            c.window -= n;
        }
        drop(c);
        self.net.lock().unwrap().ev(format!("write c{} n={} -> {}", id, data.len(), n));
        Poll::Ready(Ok(n))
    }

    fn poll_flush(self: Pin<&mut Self>, _cx: &mut Context<'_>) -> Poll<io::Result<()>> {
        Poll::Ready(Ok(()))
    }

    fn poll_shutdown(self: Pin<&mut Self>, _cx: &mut Context<'_>) -> Poll<io::Result<()>> {
        let mut c = self.st.lock().unwrap();
        c.server_shutdown = true;
        let id = c.id;
        drop(c);
        self.net.lock().unwrap().ev(format!("srv-shutdown c{}", id));
        Poll::Ready(Ok(()))
    }
}

/// The listener handed to `hyper::Server::builder`.
pub struct SimIncoming {
    pub net: NetRef,
}

/// Shared by hyper's `Accept` and the `TcpListener` stand-in.
pub fn poll_accept_raw(net: &NetRef, cx: &mut Context<'_>) -> Poll<io::Result<SimStream>> {
    let mut n = net.lock().unwrap();
    n.accept_polls += 1;
    if n.manual_accept {
        if n.accept_outage {
            n.accept_errors_fired += 1;
            n.ev("accept -> EMFILE (outage)".to_string());
            return Poll::Ready(Err(io::Error::from_raw_os_error(24)));
        }
        if let Some(e) = n.accept_errors.pop_front() {
            n.accept_errors_fired += 1;
            n.ev(format!("accept -> errno {}", e));
            // a real listener is level-triggered: the caller may call again at once
            cx.waker().wake_by_ref();
            return Poll::Ready(Err(io::Error::from_raw_os_error(e)));
        }
    }
    if let Some(s) = n.accept_q.pop_front() {
        n.accepts += 1;
        let id = s.st.lock().unwrap().id;
        n.ev(format!("accept c{}", id));
        return Poll::Ready(Ok(s));
    }
    n.accept_waker = Some(cx.waker().clone());
    Poll::Pending
}

impl hyper::server::accept::Accept for SimIncoming {
    type Conn = SimStream;
    type Error = io::Error;

    fn poll_accept(self: Pin<&mut Self>, cx: &mut Context<'_>) -> Poll<Option<Result<Self::Conn, Self::Error>>> {
        match poll_accept_raw(&self.net, cx) {
            Poll::Pending => Poll::Pending,
            Poll::Ready(r) => Poll::Ready(Some(r)),
        }
    }
}
