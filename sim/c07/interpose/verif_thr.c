/*
 * libverif_thr.so — thread-creation faults for the native legs of C07.
 *
 * LD_PRELOADed into c07n worker processes of some episodes. While the harness
 * has switched it on (verif_thr_set(1), i.e. only inside a library
 * conversion, never for the harness's own threads), every VERIF_THR_PERIOD-th
 * pthread_create fails with EAGAIN, as it does when a process runs into
 * RLIMIT_NPROC / pids.max / memory limits. A conversion may then fail; it must
 * not return different bytes.
 */
#define _GNU_SOURCE
#include <dlfcn.h>
#include <errno.h>
#include <pthread.h>
#include <stdlib.h>

static volatile int thr_on = 0;
static volatile long thr_count = 0;
static volatile long thr_failed = 0;
static long period = 0;

void verif_thr_set(int on) { thr_on = on; }
long verif_thr_failed(void) { return thr_failed; }

int pthread_create(pthread_t *t, const pthread_attr_t *a, void *(*f)(void *), void *arg) {
    static int (*real)(pthread_t *, const pthread_attr_t *, void *(*)(void *), void *) = 0;
    if (!real) real = (int (*)(pthread_t *, const pthread_attr_t *, void *(*)(void *), void *))dlsym(RTLD_NEXT, "pthread_create");
    if (!period) {
        const char *p = getenv("VERIF_THR_PERIOD");
        period = p ? atol(p) : -1;
        if (period == 0) period = -1;
    }
    if (thr_on && period > 0) {
        long n = __sync_add_and_fetch(&thr_count, 1);
        if (n % period == 0) {
            __sync_add_and_fetch(&thr_failed, 1);
            return EAGAIN;
        }
    }
    return real(t, a, f, arg);
}
