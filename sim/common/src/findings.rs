//! known_findings.json: committed, never written at run time.
//!
//! { "findings": [ { "property": "C19", "status": "known"|"fixed",
//!                   "signature": {..}, "what": "...", "commit": "..." } ] }
//!
//! A violation matches an entry when every key of the entry's signature is
//! present in the violation's signature with an equal value. `fixed` entries
//! suppress nothing.

use serde_json::Value;

#[derive(Clone, Debug)]
pub struct Finding {
    pub property: String,
    pub status: String,
    pub signature: Value,
    pub what: String,
}

pub fn load(property: &str) -> Vec<Finding> {
    let path = format!("{}/known_findings.json", crate::verif_dir());
    let txt = match std::fs::read_to_string(&path) {
        Ok(t) => t,
        Err(_) => return vec![],
    };
    let v: Value = match serde_json::from_str(&txt) {
        Ok(v) => v,
        Err(e) => crate::harness_error(&format!("known_findings.json does not parse: {}", e)),
    };
    let mut out = vec![];
    if let Some(a) = v.get("findings").and_then(|f| f.as_array()) {
        for f in a {
            if f.get("property").and_then(|p| p.as_str()) != Some(property) {
                continue;
            }
            out.push(Finding {
                property: property.to_string(),
                status: f.get("status").and_then(|s| s.as_str()).unwrap_or("known").to_string(),
                signature: f.get("signature").cloned().unwrap_or(Value::Null),
                what: f.get("what").and_then(|s| s.as_str()).unwrap_or("").to_string(),
            });
        }
    }
    out
}

pub fn matches(entry_sig: &Value, violation_sig: &Value) -> bool {
    match entry_sig.as_object() {
        Some(o) if !o.is_empty() => o.iter().all(|(k, v)| violation_sig.get(k) == Some(v)),
        _ => false,
    }
}

/// The `known` finding (if any) that covers this violation signature.
pub fn known_match<'a>(fs: &'a [Finding], sig: &Value) -> Option<&'a Finding> {
    fs.iter().find(|f| f.status == "known" && matches(&f.signature, sig))
}
