//! Run `total` independent jobs, addressed by run index, on `threads` OS
//! threads. Results come back indexed, so nothing depends on the thread count.

use std::sync::atomic::{AtomicBool, AtomicU64, Ordering};
use std::sync::{Arc, Mutex};

pub fn threads_from_env() -> usize {
    std::env::var("VERIF_JOBS")
        .ok()
        .and_then(|s| s.parse().ok())
        .unwrap_or_else(|| {
            std::thread::available_parallelism()
                .map(|n| n.get())
                .unwrap_or(4)
                .min(16)
        })
}

/// `f(worker, run_index)`; stops handing out new work once `stop` is set.
pub fn run_indexed<R, F>(threads: usize, start: u64, total: u64, stack: usize, stop: Arc<AtomicBool>, f: F) -> Vec<(u64, R)>
where
    R: Send + 'static,
    F: Fn(usize, u64) -> R + Send + Sync + 'static,
{
    let next = Arc::new(AtomicU64::new(0));
    let out: Arc<Mutex<Vec<(u64, R)>>> = Arc::new(Mutex::new(Vec::new()));
    let f = Arc::new(f);
    let mut hs = Vec::new();
    for w in 0..threads.max(1) {
        let next = next.clone();
        let out = out.clone();
        let f = f.clone();
        let stop = stop.clone();
        let h = std::thread::Builder::new()
            .name(format!("w{}", w))
            .stack_size(stack)
            .spawn(move || {
                let mut local = Vec::new();
                loop {
                    if stop.load(Ordering::Relaxed) {
                        break;
                    }
                    let i = next.fetch_add(1, Ordering::Relaxed);
                    if i >= total {
                        break;
                    }
                    let r = f(w, start + i);
                    local.push((start + i, r));
                }
                out.lock().unwrap().extend(local);
            })
            .expect("spawn worker");
        hs.push(h);
    }
    for h in hs {
        if h.join().is_err() {
            crate::harness_error("worker thread panicked");
        }
    }
    let mut v = std::mem::take(&mut *out.lock().unwrap());
    v.sort_by_key(|x| x.0);
    v
}
