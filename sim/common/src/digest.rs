//! 64/128-bit digests for event logs, outputs and schedules.

pub fn fnv64(b: &[u8]) -> u64 {
    let mut h: u64 = 0xcbf2_9ce4_8422_2325;
    for &c in b {
        h ^= c as u64;
        h = h.wrapping_mul(0x0000_0100_0000_01b3);
    }
    h
}

/// Incremental 128-bit digest (two independent multiplicative hashes).
#[derive(Clone, Copy, Debug, PartialEq, Eq, Hash, PartialOrd, Ord)]
pub struct Digest(pub u64, pub u64);

impl Default for Digest {
    fn default() -> Self {
        Digest(0xcbf2_9ce4_8422_2325, 0x9ae1_6a3b_2f90_404f)
    }
}

impl Digest {
    pub fn new() -> Self {
        Self::default()
    }
    pub fn of(b: &[u8]) -> Self {
        let mut d = Self::new();
        d.bytes(b);
        d
    }
    #[inline]
    pub fn bytes(&mut self, b: &[u8]) {
        for &c in b {
            self.0 = (self.0 ^ c as u64).wrapping_mul(0x0000_0100_0000_01b3);
            self.1 = (self.1 ^ c as u64).wrapping_mul(0xff51_afd7_ed55_8ccd).rotate_left(23);
        }
        // length separator so that concatenations differ
        self.u64(b.len() as u64 ^ 0xa5a5);
    }
    #[inline]
    pub fn u64(&mut self, x: u64) {
        for c in x.to_le_bytes() {
            self.0 = (self.0 ^ c as u64).wrapping_mul(0x0000_0100_0000_01b3);
            self.1 = (self.1 ^ c as u64).wrapping_mul(0xff51_afd7_ed55_8ccd).rotate_left(23);
        }
    }
    pub fn str(&mut self, s: &str) {
        self.bytes(s.as_bytes())
    }
    pub fn hex(&self) -> String {
        format!("{:016x}{:016x}", self.0, self.1)
    }
    pub fn short(&self) -> u64 {
        self.0 ^ self.1.rotate_left(32)
    }
}
