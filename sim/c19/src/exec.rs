//! Execute one RunSpec against the real CLI binary under the interposer.

use crate::spec::RunSpec;
use simcommon::Digest;
use std::collections::BTreeMap;
use std::fs;
use std::os::unix::process::ExitStatusExt;
use std::path::{Path, PathBuf};
use std::process::{Command, Stdio};
use std::time::{Duration, Instant};

#[derive(Clone, Debug, PartialEq)]
pub enum Node {
    Dir,
    File(Vec<u8>),
    /// fifo, socket, device: never read
    Special,
}

pub type Tree = BTreeMap<String, Node>;

#[derive(Clone, Debug)]
pub struct Injected {
    pub kind: String, // eintr err short chunk budget-err budget-short dirshuffle
    pub call: String,
    pub role: String,
}

impl Injected {
    pub fn hard(&self) -> bool {
        self.kind == "err" || self.kind == "budget-err"
    }
    pub fn label(&self) -> String {
        format!("{}:{}:{}", self.kind, self.call, self.role)
    }
}

#[derive(Clone, Debug)]
pub struct Call {
    pub call: String,
    pub role: String,
    pub nth: u64,
    pub n: u64, // bytes requested (read/write)
}

#[derive(Clone, Debug)]
pub struct Observed {
    pub exit: Option<i32>,
    pub signal: Option<i32>,
    pub stdout: Vec<u8>,
    pub stderr: Vec<u8>,
    pub log: String,
    pub before: Tree,
    pub after: Tree,
    pub injected: Vec<Injected>,
    pub calls: Vec<Call>,
    pub timed_out: bool,
    /// false when real pipes fed the run: the kernel decides how reads are
    /// chunked, so the call sequence (not the behaviour) may differ between runs
    pub log_stable: bool,
}

impl Observed {
    /// Digest of everything observable, for the determinism self-test.
    pub fn digest(&self) -> Digest {
        let mut d = Digest::new();
        d.u64(self.exit.map(|x| x as u64 + 1).unwrap_or(0));
        d.u64(self.signal.map(|x| x as u64 + 1).unwrap_or(0));
        d.bytes(&self.stdout);
        d.bytes(&mask_stderr(&self.stderr));
        if self.log_stable {
            d.str(&self.log);
        }
        for (p, n) in &self.after {
            d.str(p);
            match n {
                Node::Dir => d.u64(1),
                Node::Special => d.u64(2),
                Node::File(b) => d.bytes(b),
            }
        }
        d
    }
}

/// Panic messages carry nothing run-specific today, but keep thread ids out.
fn mask_stderr(b: &[u8]) -> Vec<u8> {
    // "thread 'main' (12345) panicked" -> "thread 'main' (N) panicked"
    let s = String::from_utf8_lossy(b);
    let mut out = String::with_capacity(s.len());
    let mut rest: &str = &s;
    while let Some(i) = rest.find("' (") {
        let (head, tail) = rest.split_at(i + 3);
        out.push_str(head);
        let digits = tail.chars().take_while(|c| c.is_ascii_digit()).count();
        if digits > 0 && tail[digits..].starts_with(')') {
            out.push('N');
            rest = &tail[digits..];
        } else {
            rest = tail;
        }
    }
    out.push_str(rest);
    out.into_bytes()
}

pub struct Env {
    pub cli: PathBuf,
    pub interposer: PathBuf,
    /// per-worker scratch directory (on /dev/shm when available)
    pub scratch: PathBuf,
    pub timeout: Duration,
}

fn snapshot(root: &Path) -> Tree {
    let mut t = Tree::new();
    fn walk(root: &Path, rel: &str, t: &mut Tree) {
        let dir = if rel.is_empty() { root.to_path_buf() } else { root.join(rel) };
        let rd = match fs::read_dir(&dir) {
            Ok(r) => r,
            Err(_) => return,
        };
        for e in rd.flatten() {
            let name = e.file_name().to_string_lossy().to_string();
            let p = if rel.is_empty() { name } else { format!("{}/{}", rel, name) };
            let ft = match e.file_type() {
                Ok(f) => f,
                Err(_) => continue,
            };
            if ft.is_dir() {
                t.insert(p.clone(), Node::Dir);
                walk(root, &p, t);
            } else if !ft.is_file() && !ft.is_symlink() {
                t.insert(p, Node::Special);
            } else {
                t.insert(p, Node::File(fs::read(e.path()).unwrap_or_default()));
            }
        }
    }
    walk(root, "", &mut t);
    t
}

pub fn parse_log(log: &str) -> (Vec<Injected>, Vec<Call>, bool) {
    let mut inj = vec![];
    let mut calls = vec![];
    let mut handshake = false;
    for line in log.lines() {
        let f: Vec<&str> = line.split(' ').collect();
        match f.first().copied() {
            Some("H") => handshake = true,
            Some("I") if f.len() >= 4 => inj.push(Injected {
                kind: f[1].to_string(),
                call: f[2].to_string(),
                role: f[3].to_string(),
            }),
            Some("E") if f.len() >= 4 => {
                let nth = f[3].parse::<u64>().unwrap_or(0);
                let n = f
                    .iter()
                    .find_map(|x| x.strip_prefix("n=").and_then(|v| v.parse::<u64>().ok()))
                    .unwrap_or(0);
                if matches!(f[1], "open" | "read" | "write" | "mkdir" | "opendir") {
                    calls.push(Call { call: f[1].to_string(), role: f[2].to_string(), nth, n });
                }
            }
            _ => {}
        }
    }
    (inj, calls, handshake)
}

fn lay_out(cwd: &Path, spec: &RunSpec) {
    for d in &spec.dirs {
        let _ = fs::create_dir_all(cwd.join(d));
    }
    for (p, c) in &spec.files {
        let fp = cwd.join(p);
        if let Some(parent) = fp.parent() {
            let _ = fs::create_dir_all(parent);
        }
        // in a history two layouts may disagree (a file where the other wants a
        // directory): the first one wins, the model reads the real tree anyway
        let _ = fs::write(&fp, c);
    }
    for (p, _) in &spec.fifos {
        let fp = cwd.join(p);
        if let Some(parent) = fp.parent() {
            let _ = fs::create_dir_all(parent);
        }
        if fp.exists() {
            continue;
        }
        let ok = Command::new("mkfifo").arg(&fp).status().map(|s| s.success()).unwrap_or(false);
        if !ok {
            simcommon::harness_error(&format!("mkfifo {} failed", fp.display()));
        }
    }
}

pub fn run(env: &Env, spec: &RunSpec) -> Observed {
    let base = &env.scratch;
    let _ = fs::remove_dir_all(base);
    let cwd = base.join("cwd");
    fs::create_dir_all(&cwd).unwrap_or_else(|e| simcommon::harness_error(&format!("scratch: {}", e)));
    // earlier invocations in the same directory (history), not judged
    for p in &spec.prior {
        lay_out(&cwd, p);
    }
    lay_out(&cwd, spec);
    for (i, p) in spec.prior.iter().enumerate() {
        let _ = invoke(env, p, &cwd, &format!("prior{}", i));
    }
    let before = snapshot(&cwd);
    let mut obs = invoke(env, spec, &cwd, "main");
    obs.before = before;
    obs
}

fn invoke(env: &Env, spec: &RunSpec, cwd: &Path, tag: &str) -> Observed {
    let base = &env.scratch;
    let cwd = cwd.to_path_buf();
    let out_p = base.join(format!("stdout-{}", tag));
    let err_p = base.join(format!("stderr-{}", tag));
    let log_p = base.join(format!("log-{}", tag));
    let in_p = base.join(format!("stdin-{}", tag));
    let stdin = match &spec.stdin {
        Some(_) if spec.stdin_pipe => Stdio::piped(),
        Some(b) => {
            fs::write(&in_p, b).unwrap();
            Stdio::from(fs::File::open(&in_p).unwrap())
        }
        None => Stdio::null(),
    };
    let mut plan = spec.faults.join(";");
    if !plan.is_empty() {
        plan.push(';');
    }
    plan.push_str(&format!("rand:{}", spec.rand_seed));
    let mut cmd = Command::new(&env.cli);
    cmd.args(spec.argv()).current_dir(&cwd).env_clear();
    for (k, v) in &spec.env {
        cmd.env(k, v);
    }
    cmd.env("LD_PRELOAD", &env.interposer)
        .env("VERIF_FAULTS", &plan)
        .env("VERIF_LOG", &log_p)
        .env("RUST_BACKTRACE", "0")
        .stdin(stdin)
        .stdout(Stdio::from(fs::File::create(&out_p).unwrap()))
        .stderr(Stdio::from(fs::File::create(&err_p).unwrap()));
    let mut child = match cmd.spawn() {
        Ok(c) => c,
        Err(e) => simcommon::harness_error(&format!("cannot spawn {}: {}", env.cli.display(), e)),
    };
    // feeders: standard input through a pipe, and the named pipes. They give up
    // when the child is gone (a reader may never show up).
    let done = std::sync::Arc::new(std::sync::atomic::AtomicBool::new(false));
    let mut feeders = vec![];
    if spec.stdin_pipe {
        if let (Some(mut w), Some(b)) = (child.stdin.take(), spec.stdin.clone()) {
            feeders.push(std::thread::spawn(move || {
                use std::io::Write;
                // two pieces, so that a single read cannot see everything
                let h = b.len() / 2;
                let _ = w.write_all(&b[..h]);
                let _ = w.flush();
                let _ = w.write_all(&b[h..]);
            }));
        }
    }
    for (p, content) in &spec.fifos {
        let fp = cwd.join(p);
        let content = content.clone();
        let done = done.clone();
        feeders.push(std::thread::spawn(move || {
            use std::io::Write;
            use std::os::unix::fs::OpenOptionsExt;
            loop {
                if done.load(std::sync::atomic::Ordering::Relaxed) {
                    return;
                }
                // O_NONBLOCK: opening a fifo for writing fails with ENXIO until a reader exists
                match fs::OpenOptions::new().write(true).custom_flags(0o4000).open(&fp) {
                    Ok(mut f) => {
                        let mut off = 0;
                        while off < content.len() && !done.load(std::sync::atomic::Ordering::Relaxed) {
                            match f.write(&content[off..]) {
                                Ok(n) => off += n,
                                Err(e) if e.kind() == std::io::ErrorKind::WouldBlock => std::thread::sleep(Duration::from_micros(100)),
                                Err(_) => return,
                            }
                        }
                        return;
                    }
                    Err(_) => std::thread::sleep(Duration::from_micros(200)),
                }
            }
        }));
    }
    let t0 = Instant::now();
    let mut nap = Duration::from_micros(100);
    let mut timed_out = false;
    let status = loop {
        match child.try_wait() {
            Ok(Some(s)) => break s,
            Ok(None) => {
                if t0.elapsed() > env.timeout {
                    timed_out = true;
                    let _ = child.kill();
                    break child.wait().unwrap();
                }
                std::thread::sleep(nap);
                if nap < Duration::from_millis(2) {
                    nap *= 2;
                }
            }
            Err(e) => simcommon::harness_error(&format!("wait: {}", e)),
        }
    };
    done.store(true, std::sync::atomic::Ordering::Relaxed);
    for f in feeders {
        let _ = f.join();
    }
    let log = fs::read_to_string(&log_p).unwrap_or_default();
    let (injected, calls, handshake) = parse_log(&log);
    if !handshake {
        simcommon::harness_error("interposer handshake missing from the event log (LD_PRELOAD not effective)");
    }
    Observed {
        exit: status.code(),
        signal: status.signal(),
        stdout: fs::read(&out_p).unwrap_or_default(),
        stderr: fs::read(&err_p).unwrap_or_default(),
        log,
        before: Tree::new(),
        after: snapshot(&cwd),
        injected,
        calls,
        timed_out,
        log_stable: !spec.stdin_pipe && spec.fifos.is_empty(),
    }
}

// ------------------------------------------------------------------ several invocations at once

/// Two CLI processes working in the same directory, released one tracked call
/// at a time through the interposer's turnstile. `pick(n)` chooses which of the
/// n currently blocked processes proceeds; the choices made are returned so
/// that the interleaving can be replayed exactly.
pub fn run_duo(env: &Env, specs: &[RunSpec; 2], pick: &mut dyn FnMut(usize) -> usize) -> ([Observed; 2], Vec<u8>) {
    use std::io::{Read, Write};
    use std::os::unix::fs::OpenOptionsExt;
    let base = &env.scratch;
    let _ = fs::remove_dir_all(base);
    let cwd = base.join("cwd");
    fs::create_dir_all(&cwd).unwrap_or_else(|e| simcommon::harness_error(&format!("scratch: {}", e)));
    for s in specs.iter() {
        lay_out(&cwd, s);
    }
    let before = snapshot(&cwd);
    let mut children = vec![];
    let mut reqs = vec![];
    let mut gos = vec![];
    for (i, spec) in specs.iter().enumerate() {
        let req_p = base.join(format!("turn{}-req", i));
        let go_p = base.join(format!("turn{}-go", i));
        for p in [&req_p, &go_p] {
            if !Command::new("mkfifo").arg(p).status().map(|s| s.success()).unwrap_or(false) {
                simcommon::harness_error("mkfifo failed");
            }
        }
        // both ends open on our side, so nobody blocks in open()
        let req = fs::OpenOptions::new().read(true).write(true).custom_flags(0o4000).open(&req_p).unwrap();
        let go = fs::OpenOptions::new().read(true).write(true).open(&go_p).unwrap();
        let stdin = match &spec.stdin {
            Some(b) => {
                let in_p = base.join(format!("stdin-{}", i));
                fs::write(&in_p, b).unwrap();
                Stdio::from(fs::File::open(&in_p).unwrap())
            }
            None => Stdio::null(),
        };
        let mut plan = spec.faults.join(";");
        if !plan.is_empty() {
            plan.push(';');
        }
        plan.push_str(&format!("rand:{}", spec.rand_seed));
        let mut cmd = Command::new(&env.cli);
        cmd.args(spec.argv()).current_dir(&cwd).env_clear();
        cmd.env("LD_PRELOAD", &env.interposer)
            .env("VERIF_FAULTS", &plan)
            .env("VERIF_LOG", base.join(format!("log-{}", i)))
            .env("VERIF_TURN_REQ", &req_p)
            .env("VERIF_TURN_GO", &go_p)
            .env("RUST_BACKTRACE", "0")
            .stdin(stdin)
            .stdout(Stdio::from(fs::File::create(base.join(format!("stdout-{}", i))).unwrap()))
            .stderr(Stdio::from(fs::File::create(base.join(format!("stderr-{}", i))).unwrap()));
        let child = cmd.spawn().unwrap_or_else(|e| simcommon::harness_error(&format!("cannot spawn: {}", e)));
        children.push(child);
        reqs.push(req);
        gos.push(go);
    }
    #[derive(PartialEq, Clone, Copy)]
    enum St {
        Running,
        Blocked,
        Exited,
    }
    let mut st = [St::Running; 2];
    let mut status: [Option<std::process::ExitStatus>; 2] = [None, None];
    let mut timed_out = false;
    let t0 = Instant::now();
    let wait_event = |i: usize, st: &mut [St; 2], children: &mut Vec<std::process::Child>, reqs: &mut Vec<fs::File>, status: &mut [Option<std::process::ExitStatus>; 2], timed_out: &mut bool| {
        let mut exiting = false;
        loop {
            let mut b = [0u8; 1];
            match reqs[i].read(&mut b) {
                Ok(1) if b[0] == b'r' && !exiting => {
                    st[i] = St::Blocked;
                    return;
                }
                Ok(1) => exiting = true,
                _ => {}
            }
            if let Ok(Some(s)) = children[i].try_wait() {
                status[i] = Some(s);
                st[i] = St::Exited;
                return;
            }
            if t0.elapsed() > env.timeout {
                *timed_out = true;
                let _ = children[i].kill();
                status[i] = children[i].wait().ok();
                st[i] = St::Exited;
                return;
            }
            std::thread::sleep(Duration::from_micros(if exiting { 200 } else { 50 }));
        }
    };
    for i in 0..2 {
        wait_event(i, &mut st, &mut children, &mut reqs, &mut status, &mut timed_out);
    }
    let mut schedule = vec![];
    loop {
        let blocked: Vec<usize> = (0..2).filter(|i| st[*i] == St::Blocked).collect();
        if blocked.is_empty() {
            break;
        }
        let k = blocked[pick(blocked.len()).min(blocked.len() - 1)];
        schedule.push(k as u8);
        st[k] = St::Running;
        let _ = gos[k].write_all(b"g");
        wait_event(k, &mut st, &mut children, &mut reqs, &mut status, &mut timed_out);
    }
    let after = snapshot(&cwd);
    let mk = |i: usize| -> Observed {
        let log = fs::read_to_string(base.join(format!("log-{}", i))).unwrap_or_default();
        let (injected, calls, handshake) = parse_log(&log);
        if !handshake {
            simcommon::harness_error("interposer handshake missing from the event log");
        }
        let s = status[i];
        Observed {
            exit: s.and_then(|s| s.code()),
            signal: s.and_then(|s| s.signal()),
            stdout: fs::read(base.join(format!("stdout-{}", i))).unwrap_or_default(),
            stderr: fs::read(base.join(format!("stderr-{}", i))).unwrap_or_default(),
            log,
            before: before.clone(),
            after: after.clone(),
            injected,
            calls,
            timed_out,
            log_stable: true,
        }
    };
    ([mk(0), mk(1)], schedule)
}
