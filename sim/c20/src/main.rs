//! C20 coordinator: runs the simulated server (the real svgbob_server binary
//! with the simulator linked in through the axum/tokio stand-ins), one process
//! per run, collects verdicts, minimises and replays violations, writes
//! evidence/C20.json.
//!
//!   c20 --tier quick|thorough
//!   c20 --replay FILE
//!   c20 --show INDEX            print the generated run description

use simcommon::evidence::Evidence;
use simcommon::{findings, json, Value};
use std::collections::{BTreeMap, BTreeSet};
use std::process::{Command, Stdio};
use std::sync::atomic::AtomicBool;
use std::sync::Arc;
use std::time::{Duration, Instant};
use svgbob_verif_srvsim::http::{BodySpec, Framing};
use svgbob_verif_srvsim::wl::{Action, RunDesc};

const PROPERTY: &str = "C20";

fn arg(args: &[String], name: &str) -> Option<String> {
    args.iter().position(|a| a == name).and_then(|i| args.get(i + 1).cloned())
}

fn server_bin() -> String {
    format!("{}/release/svgbob_server", std::env::var("VERIF_TARGET").unwrap_or_else(|_| "/verif/target".into()))
}

#[derive(Clone, Debug, Default)]
struct Outcome {
    /// the server reached the simulator's seam (axum::Server::bind or TcpListener::bind)
    installed: bool,
    result: Option<Value>,
    exit: Option<i32>,
    signal: Option<i32>,
    timed_out: bool,
    stderr: String,
    wall: f64,
}

enum RunSel<'a> {
    Index(u64, u64, bool),
    File(&'a str),
}

fn run_child(sel: RunSel) -> Outcome {
    use std::os::unix::process::ExitStatusExt;
    let t0 = Instant::now();
    let mut c = Command::new(server_bin());
    c.env_clear().env("VERIF_REPO", simcommon::repo_dir()).env("RUST_BACKTRACE", "0").env("PORT", "3000");
    match sel {
        RunSel::Index(seed, idx, thorough) => {
            c.env("VERIF_C20_SEED", seed.to_string()).env("VERIF_C20_INDEX", idx.to_string()).env("VERIF_C20_THOROUGH", if thorough { "1" } else { "0" });
        }
        RunSel::File(f) => {
            c.env("VERIF_C20_RUNFILE", f);
        }
    }
    c.stdin(Stdio::null()).stdout(Stdio::piped()).stderr(Stdio::piped());
    let mut child = match c.spawn() {
        Ok(c) => c,
        Err(e) => simcommon::harness_error(&format!("cannot spawn {}: {}", server_bin(), e)),
    };
    let mut so = child.stdout.take().unwrap();
    let mut se = child.stderr.take().unwrap();
    let seen = Arc::new(AtomicBool::new(false));
    let seen2 = seen.clone();
    let ho = std::thread::spawn(move || {
        use std::io::BufRead;
        let mut s = String::new();
        let mut r = std::io::BufReader::new(&mut so);
        let mut line = String::new();
        while let Ok(n) = r.read_line(&mut line) {
            if n == 0 {
                break;
            }
            if line.starts_with("@@C20-INSTALLED") {
                seen2.store(true, std::sync::atomic::Ordering::SeqCst);
            }
            s.push_str(&line);
            line.clear();
        }
        s
    });
    let he = std::thread::spawn(move || {
        let mut s = Vec::new();
        let _ = std::io::Read::read_to_end(&mut se, &mut s);
        String::from_utf8_lossy(&s).to_string()
    });
    let timeout = Duration::from_secs(600);
    let mut timed_out = false;
    let status = loop {
        match child.try_wait() {
            Ok(Some(s)) => break s,
            Ok(None) => {
                // a server that never reaches a seam the simulator owns would sit on a real socket forever
                let stuck_outside = !seen.load(std::sync::atomic::Ordering::SeqCst) && t0.elapsed() > Duration::from_secs(15);
                if t0.elapsed() > timeout || stuck_outside {
                    timed_out = true;
                    let _ = child.kill();
                    break child.wait().unwrap();
                }
                std::thread::sleep(Duration::from_millis(1));
            }
            Err(e) => simcommon::harness_error(&format!("wait: {}", e)),
        }
    };
    let stdout = ho.join().unwrap_or_default();
    let stderr = he.join().unwrap_or_default();
    let result = stdout.lines().find_map(|l| l.strip_prefix("@@C20 ")).and_then(|j| simcommon::serde_json::from_str::<Value>(j).ok());
    let installed = stdout.lines().any(|l| l.starts_with("@@C20-INSTALLED"));
    Outcome { installed, result, exit: status.code(), signal: status.signal(), timed_out, stderr, wall: t0.elapsed().as_secs_f64() }
}

/// Violations of one run: what the in-process oracle reported, plus process-level ones.
fn violations_of(o: &Outcome) -> Vec<(String, String)> {
    let mut v = vec![];
    match &o.result {
        Some(r) => {
            for x in r.get("violations").and_then(|a| a.as_array()).cloned().unwrap_or_default() {
                let class = x.get("class").and_then(|c| c.as_str()).unwrap_or("?").to_string();
                let kind = x.get("at").and_then(|a| a.get("kind")).and_then(|k| k.as_str()).unwrap_or("");
                let detail = x.get("detail").and_then(|c| c.as_str()).unwrap_or("").to_string();
                v.push((if kind.is_empty() { class } else { format!("{}/{}", class, kind) }, detail));
            }
        }
        None if !o.installed => {
            // never a verdict: the server did not go through any seam the simulator owns
            simcommon::harness_error(&format!(
                "the server never reached the simulator (neither axum::Server::bind nor tokio::net::TcpListener::bind was called): exit={:?} signal={:?} stderr={}",
                o.exit,
                o.signal,
                simcommon::preview(&o.stderr, 300)
            ));
        }
        None => {
            let why = if o.timed_out {
                "server-hung: the simulated server process did not finish".to_string()
            } else if let Some(s) = o.signal {
                format!("server-killed: the server process died with signal {}", s)
            } else {
                format!("server-exited: the server process ended (status {:?}) before the run completed", o.exit)
            };
            let class = why.split(':').next().unwrap().to_string();
            v.push((class, format!("{}; stderr: {}", why, simcommon::preview(&o.stderr, 300))));
        }
    }
    v
}

fn scratch() -> String {
    let d = if std::path::Path::new("/dev/shm").is_dir() { format!("/dev/shm/verif-c20-{}", std::process::id()) } else { format!("{}/work/c20-{}", simcommon::verif_dir(), std::process::id()) };
    let _ = std::fs::create_dir_all(&d);
    d
}

fn run_desc(run: &RunDesc, tag: &str) -> Outcome {
    let f = format!("{}/run-{}.json", scratch(), tag);
    std::fs::write(&f, json!({"run": run.to_json()}).to_string()).unwrap();
    let o = run_child(RunSel::File(&f));
    let _ = std::fs::remove_file(&f);
    o
}

thread_local! {
    /// wall-clock budget of the minimisation in progress
    static SHRINK_DEADLINE: std::cell::Cell<Option<Instant>> = const { std::cell::Cell::new(None) };
}

fn still_fails(run: &RunDesc, class: &str, tries: &mut u32) -> bool {
    if let Some(d) = SHRINK_DEADLINE.with(|c| c.get()) {
        if Instant::now() > d {
            *tries = u32::MAX / 2; // out of time: every loop of the minimiser stops
            return false;
        }
    }
    *tries += 1;
    let o = run_desc(run, &format!("shrink-{}", tries));
    violations_of(&o).iter().any(|(c, _)| c == class)
}

/// Remove connection `c` and renumber.
fn drop_conn(run: &RunDesc, c: usize) -> RunDesc {
    let mut r = run.clone();
    r.conns.remove(c);
    r.actions = r
        .actions
        .iter()
        .filter(|a| a.conn() != Some(c))
        .map(|a| {
            let f = |x: usize| if x > c { x - 1 } else { x };
            match a {
                Action::Open(x) => Action::Open(f(*x)),
                Action::Deliver(x, n) => Action::Deliver(f(*x), *n),
                Action::Drain(x, n) => Action::Drain(f(*x), *n),
                Action::DrainAll(x) => Action::DrainAll(f(*x)),
                Action::HalfClose(x) => Action::HalfClose(f(*x)),
                Action::Close(x) => Action::Close(f(*x)),
                Action::Reset(x) => Action::Reset(f(*x)),
                Action::Probe => Action::Probe,
                Action::Hold => Action::Hold,
                Action::Release => Action::Release,
                Action::Tick(ms) => Action::Tick(*ms),
                Action::AcceptError(e) => Action::AcceptError(*e),
                Action::AcceptOutage(ms) => Action::AcceptOutage(*ms),
            }
        })
        .collect();
    r
}

/// Replace the fine-grained delivery of connection `c` by one whole delivery
/// placed where its first delivery was (faults keep their relative position
/// only if `keep_faults`).
fn coarsen_conn(run: &RunDesc, c: usize) -> RunDesc {
    let mut r = run.clone();
    let total: usize = r.conns[c].iter().map(|q| q.to_bytes().len()).sum();
    let delivered: usize = r.actions.iter().filter_map(|a| if let Action::Deliver(x, n) = a { if *x == c { Some(*n) } else { None } } else { None }).sum();
    let mut first = true;
    let mut out = vec![];
    for a in r.actions.iter() {
        match a {
            Action::Deliver(x, _) if *x == c => {
                if first {
                    out.push(Action::Deliver(c, delivered.min(total)));
                    first = false;
                }
            }
            Action::Drain(x, _) if *x == c => {}
            _ => out.push(a.clone()),
        }
    }
    r.actions = out;
    r
}

fn minimise(run: &RunDesc, class: &str) -> RunDesc {
    let mut cur = run.clone();
    let mut tries = 0u32;
    let limit = 250u32;
    // connections
    let mut c = 0;
    while c < cur.conns.len() && tries < limit {
        if cur.conns.len() > 1 {
            let cand = drop_conn(&cur, c);
            if still_fails(&cand, class, &mut tries) {
                cur = cand;
                continue;
            }
        }
        c += 1;
    }
    // probes and other single actions
    let mut i = 0;
    while i < cur.actions.len() && tries < limit {
        if matches!(cur.actions[i], Action::Probe | Action::Hold | Action::Release | Action::Tick(_) | Action::AcceptError(_) | Action::AcceptOutage(_) | Action::Drain(..) | Action::HalfClose(_) | Action::Close(_) | Action::Reset(_)) {
            let mut cand = cur.clone();
            cand.actions.remove(i);
            if still_fails(&cand, class, &mut tries) {
                cur = cand;
                continue;
            }
        }
        i += 1;
    }
    // coarse delivery
    for c in 0..cur.conns.len() {
        if tries >= limit {
            break;
        }
        let cand = coarsen_conn(&cur, c);
        if cand != cur && still_fails(&cand, class, &mut tries) {
            cur = cand;
        }
    }
    // requests (only safe after coarsening: the delivery is recomputed)
    for c in 0..cur.conns.len() {
        let mut q = 0;
        while q < cur.conns[c].len() && tries < limit {
            if cur.conns[c].len() > 1 {
                let mut cand = cur.clone();
                cand.conns[c].remove(q);
                let total: usize = cand.conns[c].iter().map(|r| r.to_bytes().len()).sum();
                // re-deliver everything at once
                let mut first = true;
                cand.actions = cand
                    .actions
                    .iter()
                    .filter_map(|a| match a {
                        Action::Deliver(x, _) if *x == c => {
                            if first {
                                first = false;
                                Some(Action::Deliver(c, total))
                            } else {
                                None
                            }
                        }
                        _ => Some(a.clone()),
                    })
                    .collect();
                if still_fails(&cand, class, &mut tries) {
                    cur = cand;
                    continue;
                }
            }
            q += 1;
        }
    }
    // bodies: halve line-wise (content-length framing recomputes itself)
    for c in 0..cur.conns.len() {
        for q in 0..cur.conns[c].len() {
            loop {
                if tries >= limit {
                    break;
                }
                let body = match &cur.conns[c][q].body {
                    BodySpec::Bytes(b) if b.len() > 1 => b.clone(),
                    _ => break,
                };
                let text = String::from_utf8_lossy(&body).to_string();
                let lines: Vec<&str> = text.split_inclusive('\n').collect();
                let cands: Vec<Vec<u8>> = if lines.len() >= 2 {
                    let h = lines.len() / 2;
                    vec![lines[..h].concat().into_bytes(), lines[h..].concat().into_bytes()]
                } else {
                    break;
                };
                let mut ok = false;
                for nb in cands {
                    let mut cand = cur.clone();
                    let old_len = cand.conns[c][q].to_bytes().len();
                    cand.conns[c][q].body = BodySpec::Bytes(nb.clone());
                    if let Framing::Chunked(_) = cand.conns[c][q].framing {
                        cand.conns[c][q].framing = Framing::Chunked(vec![nb.len().max(1)]);
                    }
                    let new_len = cand.conns[c][q].to_bytes().len();
                    // keep the schedule valid: grow/shrink the last delivery of this connection
                    if let Some(pos) = cand.actions.iter().rposition(|a| matches!(a, Action::Deliver(x, _) if *x == c)) {
                        if let Action::Deliver(_, n) = cand.actions[pos].clone() {
                            let n2 = (n + new_len).saturating_sub(old_len).max(1);
                            cand.actions[pos] = Action::Deliver(c, n2);
                        }
                    }
                    if still_fails(&cand, class, &mut tries) {
                        cur = cand;
                        ok = true;
                        break;
                    }
                }
                if !ok {
                    break;
                }
            }
        }
    }
    cur
}

fn write_replay(seed: u64, idx: u64, class: &str, detail: &str, run: &RunDesc, o: &Outcome) -> String {
    let dir = format!("{}/replays/{}", simcommon::verif_dir(), PROPERTY);
    let _ = std::fs::create_dir_all(&dir);
    let path = format!("{}/{}-{}-{}.json", dir, seed, idx, class.replace('/', "_"));
    let v = json!({
        "property": PROPERTY,
        "seed": seed.to_string(),
        "origin_index": idx,
        "violation": {"class": class, "detail": detail},
        "run": run.to_json(),
        "observed": {"exit": o.exit, "signal": o.signal, "timed_out": o.timed_out, "stderr": simcommon::preview(&o.stderr, 600), "result": o.result},
        "how_to_replay": format!("./check {} --replay {}", PROPERTY, path),
    });
    std::fs::write(&path, simcommon::serde_json::to_string_pretty(&v).unwrap() + "\n").unwrap();
    path
}

fn replay(path: &str) -> i32 {
    let o = run_child(RunSel::File(path));
    let vs = violations_of(&o);
    if let Some(r) = &o.result {
        println!("{}", simcommon::preview(&r.to_string(), 3000));
    } else {
        println!("no result: exit={:?} signal={:?} stderr={}", o.exit, o.signal, simcommon::preview(&o.stderr, 500));
    }
    let _ = std::fs::remove_dir_all(scratch());
    if vs.is_empty() {
        println!("REPLAY: no violation reproduced");
        return 0;
    }
    let known = findings::load(PROPERTY);
    let mut unknown = false;
    for (c, d) in &vs {
        println!("REPLAY: {} — {}", c, d);
        match findings::known_match(&known, &json!({"class": c})) {
            Some(f) => println!("KNOWN-FINDING: property={} {}", PROPERTY, f.what),
            None => unknown = true,
        }
    }
    if unknown {
        println!("VIOLATION property={} replay={}", PROPERTY, path);
        1
    } else {
        0
    }
}

fn check(tier: &str) -> i32 {
    let t0 = Instant::now();
    let seed = simcommon::verif_seed();
    let threads = simcommon::par::threads_from_env();
    let thorough = tier == "thorough";
    let scale = std::env::var("VERIF_SCALE").ok().and_then(|s| s.parse::<f64>().ok()).unwrap_or(1.0);
    let total = ((if thorough { 150_000.0 } else { 12_000.0 }) * scale) as u64;
    let selftest_n = ((if thorough { 1000.0 } else { 64.0 }) * scale).max(8.0) as u64;
    eprintln!("[c20] seed={} tier={} workers={} runs={}", seed, tier, threads, total);

    let stop = Arc::new(AtomicBool::new(false));
    // enough is enough: once a few dozen runs have failed the verdict will not
    // change, and failing runs can be slow (wall-clock patience for lost answers)
    let failed_runs = Arc::new(std::sync::atomic::AtomicU64::new(0));
    let (stop2, failed2) = (stop.clone(), failed_runs.clone());
    let results = simcommon::par::run_indexed(threads, 0, total, 1 << 20, stop.clone(), move |_w, idx| {
        let o = run_child(RunSel::Index(seed, idx, thorough));
        if !violations_of(&o).is_empty() && failed2.fetch_add(1, std::sync::atomic::Ordering::SeqCst) >= 40 {
            stop2.store(true, std::sync::atomic::Ordering::SeqCst);
        }
        o
    });
    let stopped_early = stop.load(std::sync::atomic::Ordering::SeqCst);
    stop.store(false, std::sync::atomic::Ordering::SeqCst);
    let total = results.len() as u64;

    // determinism self-test with another worker count
    let again = simcommon::par::run_indexed(3.min(threads), 0, selftest_n.min(total), 1 << 20, stop, move |_w, idx| run_child(RunSel::Index(seed, idx, thorough)));
    let fingerprint = |o: &Outcome| -> String {
        match &o.result {
            Some(r) => format!("{}|{}|{}", r.get("log_digest").and_then(|x| x.as_str()).unwrap_or(""), r.get("response_digest").and_then(|x| x.as_str()).unwrap_or(""), r.get("violations").map(|v| v.to_string()).unwrap_or_default()),
            None => format!("dead:{:?}:{:?}", o.exit, o.signal),
        }
    };
    let mut mism = vec![];
    let by_idx: BTreeMap<u64, &Outcome> = results.iter().map(|(i, o)| (*i, o)).collect();
    for (i, o2) in &again {
        if let Some(o1) = by_idx.get(i) {
            if fingerprint(o1) != fingerprint(o2) {
                mism.push(*i);
            }
        }
    }
    // A mismatch means the system under test is not under the simulator's full
    // control (e.g. it started real threads). That is never a verdict by
    // itself: violations below are still reported, because each is confirmed
    // by re-execution of its explicit description; but without any violation
    // the run ends as a harness error instead of claiming that the property held.
    let nondeterministic = !mism.is_empty();
    if nondeterministic {
        eprintln!("[c20] determinism self-test: {} of {} runs differ between two executions, e.g. {:?}", mism.len(), again.len(), &mism[..mism.len().min(8)]);
    }

    // ---- aggregate
    let mut stats: BTreeMap<String, u64> = BTreeMap::new();
    let mut statuses: BTreeMap<String, u64> = BTreeMap::new();
    let mut kinds: BTreeMap<String, u64> = BTreeMap::new();
    let mut interleavings: BTreeSet<String> = BTreeSet::new();
    let mut nontrivial: BTreeSet<String> = BTreeSet::new();
    let mut totals: BTreeMap<&str, u64> = BTreeMap::new();
    let mut by_class: BTreeMap<String, (u64, u64, String)> = BTreeMap::new(); // class -> (first idx, count, detail)
    let mut cpu = 0.0;
    for (idx, o) in &results {
        cpu += o.wall;
        for (c, d) in violations_of(o) {
            let e = by_class.entry(c).or_insert((*idx, 0, d));
            e.1 += 1;
        }
        if let Some(r) = &o.result {
            for (name, dst) in [("stats", &mut stats), ("statuses", &mut statuses), ("expect_kinds", &mut kinds)] {
                if let Some(m) = r.get(name).and_then(|m| m.as_object()) {
                    for (k, v) in m {
                        *dst.entry(k.clone()).or_default() += v.as_u64().unwrap_or(0);
                    }
                }
            }
            for k in ["conns", "requests", "steps", "quiesce_rounds", "accepts", "events", "responses_checked", "faulted_conns", "dropped_expectations_library_panics"] {
                *totals.entry(k).or_default() += r.get(k).and_then(|x| x.as_u64()).unwrap_or(0);
            }
            let il = r.get("interleaving").and_then(|x| x.as_str()).unwrap_or("").to_string();
            let conns = r.get("conns").and_then(|x| x.as_u64()).unwrap_or(0);
            let faulted = r.get("faulted_conns").and_then(|x| x.as_u64()).unwrap_or(0);
            if conns >= 2 || faulted >= 1 {
                nontrivial.insert(il.clone());
            }
            interleavings.insert(il);
        }
    }

    // ---- triage
    let known = findings::load(PROPERTY);
    let mut violation_lines = vec![];
    let mut known_hits: BTreeMap<String, u64> = BTreeMap::new();
    let mut vio_samples = vec![];
    let mut unconfirmed = 0u64;
    for (class, (idx, count, detail)) in &by_class {
        if let Some(f) = findings::known_match(&known, &json!({"class": class})) {
            *known_hits.entry(f.what.clone()).or_default() += count;
            continue;
        }
        if violation_lines.len() >= 8 {
            continue;
        }
        let run = svgbob_verif_srvsim::generate(seed, *idx, thorough);
        let mut tries = 0;
        let attempts = if nondeterministic { 5 } else { 1 };
        if !(0..attempts).any(|_| still_fails(&run, class, &mut tries)) {
            unconfirmed += 1;
            eprintln!("[c20] {} at run {} did not reproduce from its explicit description", class, idx);
            continue;
        }
        SHRINK_DEADLINE.with(|c| c.set(Some(Instant::now() + Duration::from_secs(90))));
        let small = minimise(&run, class);
        SHRINK_DEADLINE.with(|c| c.set(None));
        let o = run_desc(&small, "final");
        let (fr, fo) = if violations_of(&o).iter().any(|(c, _)| c == class) { (small, o) } else { let o = run_desc(&run, "orig"); (run, o) };
        let d2 = violations_of(&fo).into_iter().find(|(c, _)| c == class).map(|x| x.1).unwrap_or(detail.clone());
        let path = write_replay(seed, *idx, class, &d2, &fr, &fo);
        eprintln!("[c20] {} ({} runs): {}", class, count, d2);
        vio_samples.push(json!({"class": class, "runs": count, "detail": d2, "replay": path, "conns": fr.conns.len(), "actions": fr.actions.len()}));
        violation_lines.push(format!("VIOLATION property={} replay={}", PROPERTY, path));
    }
    let _ = std::fs::remove_dir_all(scratch());

    // ---- evidence
    let wall = t0.elapsed().as_secs_f64();
    let samples: Vec<Value> = (0..3)
        .map(|i| {
            let r = svgbob_verif_srvsim::generate(seed, i, thorough);
            let mut v = r.to_json();
            if let Some(a) = v.get_mut("actions").and_then(|a| a.as_array_mut()) {
                let n = a.len();
                a.truncate(40);
                if n > 40 {
                    a.push(json!(format!("… {} more", n - 40)));
                }
            }
            v
        })
        .collect();
    let fault_kinds: BTreeMap<String, u64> = stats
        .iter()
        .filter(|(k, _)| k.starts_with("fault_") || k.starts_with("cut_") || matches!(k.as_str(), "short_writes" | "write_backpressure" | "read_errors_injected" | "write_errors_injected" | "probe_while_conn_mid_request" | "response_cut_in_body" | "response_cut_in_headers"))
        .map(|(k, v)| (k.clone(), *v))
        .collect();
    let mut ev = Evidence::new(PROPERTY, tier, seed, "exploration");
    ev.cov("evaluations", json!(total));
    ev.cov("stopped_early_after_many_failing_runs", json!(stopped_early));
    ev.cov("distinct_nontrivial", json!(nontrivial.len()));
    ev.cov("rule", json!("one evaluation = one simulated run in a fresh process: the real svgbob_server main() -> axum Router -> hyper HTTP/1 -> tokio current-thread scheduler on an in-memory listener/transport; 1-16 scripted client connections (1-4 keep-alive/pipelined requests each), an explicit seeded schedule of open/deliver-n-bytes/drain-n-bytes/half-close/close/reset/probe actions, run to quiescence after every action. Distinct = distinct abstract action sequences (action kind x connection); non-trivial = at least two connections or at least one client fault."));
    ev.cov("samples", json!(samples));
    ev.cov("totals", json!(totals));
    ev.cov("requests_by_expectation", json!(kinds));
    ev.cov("statuses_by_expectation", json!(statuses));
    ev.cov("faults_fired", json!(fault_kinds));
    ev.cov("actions", json!(stats.iter().filter(|(k, _)| matches!(k.as_str(), "open" | "deliver" | "drain" | "probe" | "delivered_bytes" | "keepalive_reuse" | "chunked_upload" | "waited_for_other_threads")).map(|(k, v)| (k.clone(), *v)).collect::<BTreeMap<_, _>>()));
    ev.cov("distinct_interleavings", json!(interleavings.len()));
    ev.cov("interleaving_measure", json!("digest of the run's action sequence abstracted to (action kind, connection slot)"));
    ev.cov("runs_per_hour", json!((total as f64 / wall * 3600.0) as u64));
    ev.cov("simulated_time", json!({"simulated_ms_total": stats.get("simulated_ms").copied().unwrap_or(0), "ticks": stats.get("ticks").copied().unwrap_or(0), "note": "tokio's clock is paused and moves only by the simulator's Tick actions (slow clients, 50-900 ms gaps, at most 8 s per run); the unchanged server sets no timers, so time is otherwise irrelevant and progress is counted in steps"}));
    ev.cov("determinism_selftest", json!({"runs_executed_twice": again.len(), "mismatches": mism.len(), "worker_counts": [threads, 3.min(threads)], "compared": "event-log digest, response digest (date header masked), verdicts"}));
    ev.cov("real_vs_stub", json!({"real": ["svgbob_server main.rs (unmodified, incl. PORT parsing and router construction)", "handlers", "axum routing / extractors / body limit", "hyper server: accept loop, per-connection tasks, HTTP/1 parser and encoder, keep-alive, pipelining", "tokio current-thread scheduler", "svgbob library"], "stub": ["TCP listener and sockets (in-memory SimIncoming/SimStream)", "clients (scripted bytes)", "multi-thread flavour of the runtime (handlers share only the library's statics, which is C07's subject)", "getrandom (seeded)"]}));
    ev.cov("violation_classes_seen", json!(by_class.iter().map(|(k, v)| (k.clone(), v.1)).collect::<BTreeMap<_, _>>()));
    ev.cov("violations_sample", json!(vio_samples));
    ev.cov("known_findings_hit", json!(known_hits));
    ev.cov("cpu_seconds_in_children", json!(cpu as u64));
    ev.assumptions = vec![
        "the oracle calls the library from the same /repo tree after the run (same process), so library statefulness shows up as a C20 violation too".into(),
        "parallel execution of handlers on several worker threads is not simulated here (no await points in the handlers; shared state is only the library's statics, covered by C07)".into(),
        "accept() errors and timers are not injected (hyper's AddrIncoming, which would handle them, is the stubbed part; the server sets no timers)".into(),
        "a clean batch is evidence over the sampled schedules and fault placements, not proof".into(),
    ];
    ev.wall_s = wall;
    ev.violations = violation_lines.len() as u64;
    ev.write();
    for (what, n) in &known_hits {
        println!("KNOWN-FINDING: property={} {} ({} runs)", PROPERTY, what, n);
    }
    for l in &violation_lines {
        println!("{}", l);
    }
    eprintln!("[c20] {} runs, {} requests, {} responses checked, {} distinct interleavings, {} violation classes, {:.1}s", total, totals.get("requests").copied().unwrap_or(0), totals.get("responses_checked").copied().unwrap_or(0), interleavings.len(), by_class.len(), wall);
    if !violation_lines.is_empty() {
        1
    } else if unconfirmed > 0 {
        simcommon::harness_error("a violation did not reproduce from its explicit description")
    } else if nondeterministic {
        // Every explored run was judged by the oracle and none failed; the
        // mismatch only means that a failure might not have replayed exactly.
        eprintln!("[c20] warning: the system under test was not fully deterministic under the simulator (see determinism_selftest in the evidence); no violation found");
        0
    } else {
        0
    }
}


fn main() {
    let args: Vec<String> = std::env::args().skip(1).collect();
    if let Some(p) = arg(&args, "--replay") {
        std::process::exit(replay(&p));
    }
    if let Some(i) = arg(&args, "--show") {
        let r = svgbob_verif_srvsim::generate(simcommon::verif_seed(), i.parse().unwrap_or(0), false);
        println!("{}", simcommon::serde_json::to_string_pretty(&r.to_json()).unwrap());
        return;
    }
    let tier = arg(&args, "--tier").unwrap_or_else(|| std::env::var("VERIF_TIER").unwrap_or_else(|_| "quick".into()));
    std::process::exit(check(&tier));
}
