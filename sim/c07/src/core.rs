//! Shared core of the C07 simulators (included by both the shuttle and the
//! native harness through `#[path]`, because the two link different builds of
//! the `svgbob` crate).

use simcommon::gen::{self, GenMask, Pool, SettingsSpec};
use simcommon::{json, Digest, Rng, Value};
use std::collections::HashMap;

pub const ENTRY_NAMES: [&str; 5] = [
    "to_svg",
    "to_svg_string_pretty",
    "to_svg_string_compressed",
    "to_svg_with_settings",
    "to_svg_with_override_size",
];

#[derive(Clone, Debug, PartialEq)]
pub struct Op {
    pub entry: u8,
    pub text: usize, // index into RunDesc.texts
    pub settings: SettingsSpec,
    pub w: f32,
    pub h: f32,
    /// the call is made this many times in a row (long monotonous stretches
    /// of a history without a long description)
    pub repeat: u32,
}

#[derive(Clone, Debug, PartialEq)]
pub struct RunDesc {
    pub idx: u64,
    pub texts: Vec<String>,
    /// executed by the main task before the caller threads are spawned
    pub warmup: Vec<Op>,
    pub threads: Vec<Vec<Op>>,
    /// 0 = random scheduler, 1 = PCT
    pub sched_kind: u8,
    pub pct_depth: usize,
    pub sched_seed: u64,
    /// explicit schedule (task ids) to replay instead of the seeded scheduler
    pub schedule: Option<Vec<u32>>,
    pub yield_every: u64,
    pub hash_seed: u64,
}

fn to_settings(s: &SettingsSpec) -> svgbob::Settings {
    svgbob::Settings {
        font_size: s.font_size,
        font_family: s.font_family.clone(),
        fill_color: s.fill_color.clone(),
        background: s.background.clone(),
        stroke_color: s.stroke_color.clone(),
        stroke_width: s.stroke_width,
        scale: s.scale,
        include_backdrop: s.include_backdrop,
        include_styles: s.include_styles,
        include_defs: s.include_defs,
    }
}

#[derive(Clone, Debug, PartialEq)]
pub enum Outcome {
    Ok(String),
    Panic(String),
}

impl Outcome {
    pub fn digest(&self) -> Digest {
        match self {
            Outcome::Ok(s) => {
                let mut d = Digest::new();
                d.u64(1);
                d.str(s);
                d
            }
            // panic messages are not compared, only the fact
            Outcome::Panic(_) => {
                let mut d = Digest::new();
                d.u64(2);
                d
            }
        }
    }
    pub fn is_panic(&self) -> bool {
        matches!(self, Outcome::Panic(_))
    }
}

pub fn op_key(run: &RunDesc, op: &Op) -> Digest {
    let mut d = Digest::new();
    d.u64(op.entry as u64);
    d.str(&run.texts[op.text]);
    if op.entry >= 3 {
        d.str(&op.settings.key());
    }
    if op.entry == 4 {
        d.u64(op.w.to_bits() as u64);
        d.u64(op.h.to_bits() as u64);
    }
    d
}

thread_local! {
    pub static QUIET: std::cell::Cell<bool> = const { std::cell::Cell::new(false) };
}

pub fn install_quiet_panic_hook() {
    let prev = std::panic::take_hook();
    std::panic::set_hook(Box::new(move |info| {
        if !QUIET.with(|q| q.get()) {
            prev(info);
        }
    }));
}

/// `op.repeat` calls into the library; the outcome of the last one.
pub fn convert(run: &RunDesc, op: &Op) -> Outcome {
    let mut out = convert_once(run, op);
    for _ in 1..op.repeat.max(1) {
        out = convert_once(run, op);
    }
    out
}

fn convert_once(run: &RunDesc, op: &Op) -> Outcome {
    let text: &str = &run.texts[op.text];
    let settings = to_settings(&op.settings);
    let tf = thread_faults();
    if let Some(t) = tf {
        t.on();
    }
    QUIET.with(|q| q.set(true));
    let r = std::panic::catch_unwind(std::panic::AssertUnwindSafe(|| match op.entry {
        0 => svgbob::to_svg(text),
        1 => svgbob::to_svg_string_pretty(text),
        2 => svgbob::to_svg_string_compressed(text),
        3 => svgbob::to_svg_with_settings(text, &settings),
        _ => svgbob::to_svg_with_override_size(text, &settings, op.w, op.h),
    }));
    QUIET.with(|q| q.set(false));
    if let Some(t) = tf {
        t.off();
    }
    match r {
        Ok(s) => Outcome::Ok(s),
        Err(e) => {
            let msg = e
                .downcast_ref::<String>()
                .cloned()
                .or_else(|| e.downcast_ref::<&str>().map(|s| s.to_string()))
                .unwrap_or_else(|| "panic".into());
            Outcome::Panic(msg)
        }
    }
}

// ------------------------------------------------------------ generation

fn one_field_settings(rng: &mut Rng) -> SettingsSpec {
    // default (or for_debug) with exactly one field changed: the shape a lossy
    // cache key would confuse with its neighbour
    let mut s = if rng.chance(1, 6) { SettingsSpec::for_debug() } else { SettingsSpec::default() };
    match rng.below(10) {
        0 => s.font_size = *rng.pick(&[8usize, 12, 16, 24]),
        1 => s.font_family = rng.pick(gen::FONTS).to_string(),
        2 => s.fill_color = rng.pick(gen::COLORS).to_string(),
        3 => s.background = rng.pick(gen::COLORS).to_string(),
        4 => s.stroke_color = rng.pick(gen::COLORS).to_string(),
        5 => s.stroke_width = *rng.pick(&[0.5f32, 1.0, 3.0, 4.5]),
        6 => s.scale = *rng.pick(gen::SCALES),
        7 => s.include_backdrop = !s.include_backdrop,
        8 => s.include_styles = !s.include_styles,
        _ => s.include_defs = !s.include_defs,
    }
    s
}

fn gen_op_settings(rng: &mut Rng) -> SettingsSpec {
    match rng.below(10) {
        0..=2 => SettingsSpec::default(),
        3..=5 => one_field_settings(rng),
        _ => gen::gen_settings(rng),
    }
}

use simcommon::gen::sibling;

pub struct BatchGen<'a> {
    /// episode profile: most runs of this episode draw their texts from these
    /// generator families (a process that sees a lot of one feature: capacity
    /// limits, interners and caches keyed on that feature)
    pub profile: Option<u32>,
    pub pool: &'a Pool,
    pub memory: Vec<String>, // texts used earlier in this batch
    pub canaries: Vec<(String, u8, SettingsSpec)>,
}

/// Fixed probe set per check seed: every batch (process) converts some of them,
/// which guarantees cross-process comparisons of identical keys.
pub fn canaries(seed: u64, pool: &Pool) -> Vec<(String, u8, SettingsSpec)> {
    let mut rng = Rng::new(simcommon::mix(seed, "c07-canary", 0));
    let mut v = vec![];
    for i in 0..48 {
        let (t, _) = gen::gen_input(&mut rng, pool, GenMask(gen::G_ALL & !gen::G_FILE));
        let entry = (i % 5) as u8;
        let s = if i % 3 == 0 { SettingsSpec::default() } else { one_field_settings(&mut rng) };
        v.push((t, entry, s));
    }
    // the largest inputs too (many spans, many fragments per cell): whatever
    // depends on the size of the work must be compared across processes as well
    for f in pool.small_files() {
        v.push((f.1.clone(), 0, SettingsSpec::default()));
        v.push((f.1.clone(), 3, SettingsSpec::default()));
    }
    for (i, t) in gen::big_windows(pool, 7000).into_iter().enumerate() {
        v.push((t, if i % 2 == 0 { 0 } else { 2 }, SettingsSpec::default()));
    }
    for i in 0..4 {
        let t = gen::sparse_grid(&mut rng, 72, 26, 5 + 3 * i);
        v.push((t, (i % 5) as u8, SettingsSpec::default()));
    }
    v
}

impl<'a> BatchGen<'a> {
    fn gen_text(&mut self, rng: &mut Rng, mask: GenMask, run_texts: &mut Vec<String>) -> usize {
        let t = match rng.below(20) {
            // reuse a text of this run (same key on several threads / positions)
            0..=7 if !run_texts.is_empty() => return rng.usize_below(run_texts.len()),
            // reuse a text from earlier in this batch (history)
            8..=10 if !self.memory.is_empty() => rng.pick(&self.memory).clone(),
            // a near-collision of an earlier text
            11..=13 if !self.memory.is_empty() || !run_texts.is_empty() => {
                let base = if !run_texts.is_empty() && rng.chance(1, 2) {
                    rng.pick(run_texts).clone()
                } else if !self.memory.is_empty() {
                    rng.pick(&self.memory).clone()
                } else {
                    rng.pick(run_texts).clone()
                };
                sibling(rng, &base)
            }
            _ => gen::gen_input(rng, self.pool, mask).0,
        };
        if let Some(i) = run_texts.iter().position(|x| *x == t) {
            return i;
        }
        run_texts.push(t);
        run_texts.len() - 1
    }

    fn gen_op(&mut self, rng: &mut Rng, mask: GenMask, run_texts: &mut Vec<String>) -> Op {
        if rng.chance(1, 12) {
            let (t, entry, s) = rng.pick(&self.canaries).clone();
            let i = match run_texts.iter().position(|x| *x == t) {
                Some(i) => i,
                None => {
                    run_texts.push(t);
                    run_texts.len() - 1
                }
            };
            return Op { entry, text: i, settings: s, w: 640.0, h: 480.0, repeat: 1 };
        }
        let text = self.gen_text(rng, mask, run_texts);
        let entry = rng.weighted(&[3, 2, 3, 5, 2]) as u8;
        let settings = if entry >= 3 { gen_op_settings(rng) } else { SettingsSpec::default() };
        let (w, h) = if entry == 4 { (*rng.pick(&[100.0f32, 640.0, 33.5]), *rng.pick(&[50.0f32, 480.0, 7.25])) } else { (0.0, 0.0) };
        Op { entry, text, settings, w, h, repeat: 1 }
    }

    /// Counter wrap-around: a diagram X' (X with one character blanked), then X,
    /// then a tiny conversion repeated N times with N next to a power of two,
    /// then X' and X again. State that is tagged with a wrapping counter (and
    /// therefore looks fresh again after exactly 2^k operations) shows up as a
    /// difference between the two observations of X'.
    fn gen_wrap_run(&mut self, rng: &mut Rng, idx: u64) -> RunDesc {
        let x = if rng.chance(2, 3) { rng.pick(&self.pool.circle_paras).clone() } else { gen::gen_input(rng, self.pool, GenMask(gen::G_PARA | gen::G_CIRCLE | gen::G_LEGEND)).0 };
        let mut cs: Vec<char> = x.chars().collect();
        let idxs: Vec<usize> = cs.iter().enumerate().filter(|(_, c)| !c.is_whitespace()).map(|(i, _)| i).collect();
        if !idxs.is_empty() {
            let i = *rng.pick(&idxs);
            cs[i] = ' ';
        }
        let x2: String = cs.into_iter().collect();
        let tiny = rng.pick(&["()", "o", "-", "+", "(.)", "{a}", "文"]).to_string();
        let base = 1u32 << rng.urange(8, 15);
        let n = (base as i64 + *rng.pick(&[-2i64, -1, 0])) as u32;
        let op = |t: usize, repeat: u32| Op { entry: 0, text: t, settings: SettingsSpec::default(), w: 0.0, h: 0.0, repeat };
        RunDesc {
            idx,
            texts: vec![x2, x, tiny],
            warmup: vec![],
            threads: vec![vec![op(0, 1), op(1, 1), op(2, n), op(0, 1), op(1, 1)]],
            sched_kind: 0,
            pct_depth: 1,
            sched_seed: rng.next_u64(),
            schedule: None,
            yield_every: 512,
            hash_seed: rng.next_u64() | 1,
        }
    }

    /// A crowd: far more simultaneous caller threads than any per-thread or
    /// per-slot structure is likely to be dimensioned for (129..260), each doing
    /// one small conversion drawn from a handful of (text, settings) keys.
    fn gen_crowd_run(&mut self, rng: &mut Rng, idx: u64) -> RunDesc {
        let texts: Vec<String> = vec![
            "+--+\n|  |\n+--+\n".into(),
            " .-.\n(   )\n '-'\n".into(),
            "*-->o  \"t\"\n".into(),
            "+-----+\n| {a} |\n+-----+\n# Legend:\na = {fill:red}\n".into(),
        ];
        let mut keys = vec![];
        for _ in 0..6 {
            keys.push((rng.usize_below(texts.len()), one_field_settings(rng), if rng.chance(1, 2) { 3u8 } else { 4u8 }));
        }
        // threads[0..4]: long-lived callers that keep coming back with the same
        // request; the middle: a churn of short-lived threads (thread ids, slots
        // and per-thread structures get used up and recycled); the last 8:
        // late-comers that run while the long-lived ones are still at work.
        // (c07s executes runs with more than 32 threads in these three phases.)
        let n = rng.urange(100, 300);
        let mut threads = vec![];
        for i in 0..n {
            let (t, s, e) = rng.pick(&keys).clone();
            let first = Op { entry: e, text: t, settings: s, w: 320.0, h: 200.0, repeat: 1 };
            let ops = if i < 4 {
                vec![first; 8]
            } else if i >= n - 8 {
                let (t2, s2, e2) = rng.pick(&keys).clone();
                vec![first.clone(), Op { entry: e2, text: t2, settings: s2, w: 320.0, h: 200.0, repeat: 1 }, first]
            } else {
                vec![first]
            };
            threads.push(ops);
        }
        RunDesc {
            idx,
            texts,
            // warm tables and (mostly) no scheduling points at table accesses: what is
            // left are the code's own synchronisation operations, so that the few
            // steps that matter are not drowned in thousands of irrelevant ones
            warmup: (0..4).map(|t| Op { entry: 0, text: t, settings: SettingsSpec::default(), w: 0.0, h: 0.0, repeat: 1 }).collect(),
            threads,
            sched_kind: if rng.chance(1, 4) { 1 } else { 0 },
            pct_depth: rng.urange(2, 4),
            sched_seed: rng.next_u64(),
            schedule: None,
            yield_every: *rng.pick(&[1u64 << 40, 1 << 40, 1 << 40, 4096]),
            hash_seed: rng.next_u64() | 1,
        }
    }

    /// `max_threads` = 1 for the native leg.
    pub fn gen_run(&mut self, seed: u64, idx: u64, max_threads: usize) -> RunDesc {
        let mut rng = Rng::new(simcommon::mix(seed, "c07-run", idx));
        if max_threads > 1 && (rng.chance(1, 40) || std::env::var("VERIF_C07_CROWD").is_ok()) {
            return self.gen_crowd_run(&mut rng, idx);
        }
        if max_threads <= 1 && rng.chance(1, 70) {
            return self.gen_wrap_run(&mut rng, idx);
        }
        let mut mask = GenMask::swarm(&mut rng);
        if let Some(p) = self.profile {
            if rng.chance(7, 10) {
                mask = GenMask(p);
            }
        }
        let t = if max_threads <= 1 {
            1
        } else {
            match rng.below(20) {
                0 => 1,
                1..=12 => rng.urange(2, 4),
                13..=17 => rng.urange(5, 8),
                _ => rng.urange(9, max_threads),
            }
        };
        let mut texts = vec![];
        let mut warmup = vec![];
        if rng.chance(1, 3) {
            for _ in 0..rng.urange(1, 3) {
                warmup.push(self.gen_op(&mut rng, mask, &mut texts));
            }
        }
        let mut threads = vec![];
        let heavy = t > 8;
        for _ in 0..t {
            let n = if heavy { rng.urange(1, 2) } else { rng.urange(1, 6) };
            let mut ops = vec![];
            for _ in 0..n {
                ops.push(self.gen_op(&mut rng, mask, &mut texts));
            }
            threads.push(ops);
        }
        // racing on the very same key from the first instruction on
        if t >= 2 && rng.chance(1, 3) {
            let first = threads[0][0].clone();
            for th in threads.iter_mut().skip(1) {
                if rng.chance(2, 3) {
                    th[0] = first.clone();
                }
            }
        }
        for t in &texts {
            if self.memory.len() < 400 && !self.memory.contains(t) {
                self.memory.push(t.clone());
            }
        }
        RunDesc {
            idx,
            texts,
            warmup,
            threads,
            sched_kind: if rng.chance(1, 3) { 1 } else { 0 },
            pct_depth: rng.urange(1, 5),
            sched_seed: rng.next_u64(),
            schedule: None,
            yield_every: *rng.pick(&[1u64, 1, 3, 16, 64, 512]),
            hash_seed: rng.next_u64() | 1,
        }
    }
}

// ------------------------------------------------------------ oracle

#[derive(Clone, Debug)]
pub struct Where {
    pub run: u64,
    pub thread: i32, // -1 = warm-up (main task)
    pub pos: u32,
}

#[derive(Clone, Debug)]
pub struct Mismatch {
    pub key: Digest,
    pub entry: u8,
    pub first: Where,
    pub second: Where,
    pub detail: String,
    pub kind: &'static str, // "output" | "panic-sometimes"
}

pub struct Oracle {
    /// first observation of every key in this process
    pub first: HashMap<Digest, (Where, Outcome)>,
    pub mismatches: Vec<Mismatch>,
    pub comparisons: u64,
    pub comparisons_cross_thread: u64,
    pub comparisons_cross_run: u64,
    pub panics: u64,
}

fn describe(a: &Outcome, b: &Outcome) -> String {
    match (a, b) {
        (Outcome::Ok(x), Outcome::Ok(y)) => {
            let xb = x.as_bytes();
            let yb = y.as_bytes();
            let i = xb.iter().zip(yb.iter()).position(|(p, q)| p != q).unwrap_or(xb.len().min(yb.len()));
            let lo = i.saturating_sub(30);
            format!(
                "outputs differ at byte {} (lengths {} / {}): …{}… vs …{}…",
                i,
                xb.len(),
                yb.len(),
                simcommon::escape_bytes(&xb[lo..(i + 40).min(xb.len())]),
                simcommon::escape_bytes(&yb[lo..(i + 40).min(yb.len())])
            )
        }
        (Outcome::Panic(m), Outcome::Ok(_)) => format!("first observation panicked ({}), a later one returned", simcommon::preview(m, 120)),
        (Outcome::Ok(_), Outcome::Panic(m)) => format!("first observation returned, a later one panicked ({})", simcommon::preview(m, 120)),
        _ => "both panicked".into(),
    }
}

impl Oracle {
    pub fn new() -> Self {
        Oracle { first: HashMap::new(), mismatches: vec![], comparisons: 0, comparisons_cross_thread: 0, comparisons_cross_run: 0, panics: 0 }
    }

    /// Invariant checked at the return of every operation.
    pub fn observe(&mut self, key: Digest, entry: u8, at: Where, out: Outcome) {
        if out.is_panic() {
            self.panics += 1;
        }
        match self.first.get(&key) {
            None => {
                self.first.insert(key, (at, out));
            }
            Some((w0, o0)) => {
                self.comparisons += 1;
                if w0.run != at.run {
                    self.comparisons_cross_run += 1;
                } else if w0.thread != at.thread {
                    self.comparisons_cross_thread += 1;
                }
                if o0.digest() != out.digest() {
                    let kind = if o0.is_panic() != out.is_panic() { "panic-sometimes" } else { "output" };
                    self.mismatches.push(Mismatch { key, entry, first: w0.clone(), second: at, detail: describe(o0, &out), kind });
                }
            }
        }
    }
}

// ------------------------------------------------------------ JSON

fn settings_json(s: &SettingsSpec) -> Value {
    json!({
        "font_size": s.font_size, "font_family": s.font_family, "fill_color": s.fill_color,
        "background": s.background, "stroke_color": s.stroke_color,
        "stroke_width": s.stroke_width, "scale": s.scale,
        "include_backdrop": s.include_backdrop, "include_styles": s.include_styles, "include_defs": s.include_defs,
    })
}

fn settings_from(v: &Value) -> SettingsSpec {
    let d = SettingsSpec::default();
    let st = |k: &str, dv: &str| v.get(k).and_then(|x| x.as_str()).unwrap_or(dv).to_string();
    let f = |k: &str, dv: f32| v.get(k).and_then(|x| x.as_f64()).map(|x| x as f32).unwrap_or(dv);
    let b = |k: &str, dv: bool| v.get(k).and_then(|x| x.as_bool()).unwrap_or(dv);
    SettingsSpec {
        font_size: v.get("font_size").and_then(|x| x.as_u64()).unwrap_or(d.font_size as u64) as usize,
        font_family: st("font_family", &d.font_family),
        fill_color: st("fill_color", &d.fill_color),
        background: st("background", &d.background),
        stroke_color: st("stroke_color", &d.stroke_color),
        stroke_width: f("stroke_width", d.stroke_width),
        scale: f("scale", d.scale),
        include_backdrop: b("include_backdrop", true),
        include_styles: b("include_styles", true),
        include_defs: b("include_defs", true),
    }
}

fn op_json(o: &Op) -> Value {
    let mut v = json!({"entry": ENTRY_NAMES[o.entry as usize], "text": o.text});
    if o.entry >= 3 {
        v["settings"] = settings_json(&o.settings);
    }
    if o.entry == 4 {
        v["w"] = json!(o.w);
        v["h"] = json!(o.h);
    }
    if o.repeat != 1 {
        v["repeat"] = json!(o.repeat);
    }
    v
}

fn op_from(v: &Value) -> Op {
    let name = v.get("entry").and_then(|x| x.as_str()).unwrap_or("to_svg");
    let entry = ENTRY_NAMES.iter().position(|n| *n == name).unwrap_or(0) as u8;
    Op {
        entry,
        text: v.get("text").and_then(|x| x.as_u64()).unwrap_or(0) as usize,
        settings: v.get("settings").map(settings_from).unwrap_or_default(),
        w: v.get("w").and_then(|x| x.as_f64()).unwrap_or(0.0) as f32,
        h: v.get("h").and_then(|x| x.as_f64()).unwrap_or(0.0) as f32,
        repeat: v.get("repeat").and_then(|x| x.as_u64()).unwrap_or(1) as u32,
    }
}

impl RunDesc {
    pub fn to_json(&self) -> Value {
        json!({
            "idx": self.idx,
            "texts": self.texts,
            "warmup": self.warmup.iter().map(op_json).collect::<Vec<_>>(),
            "threads": self.threads.iter().map(|t| t.iter().map(op_json).collect::<Vec<_>>()).collect::<Vec<_>>(),
            "scheduler": if self.sched_kind == 1 { "pct" } else { "random" },
            "pct_depth": self.pct_depth,
            "sched_seed": self.sched_seed.to_string(),
            "schedule": self.schedule,
            "yield_every": self.yield_every,
            "hash_seed": self.hash_seed.to_string(),
        })
    }
    pub fn from_json(v: &Value) -> RunDesc {
        let ops = |x: Option<&Value>| -> Vec<Op> { x.and_then(|a| a.as_array()).map(|a| a.iter().map(op_from).collect()).unwrap_or_default() };
        RunDesc {
            idx: v.get("idx").and_then(|x| x.as_u64()).unwrap_or(0),
            texts: v
                .get("texts")
                .and_then(|a| a.as_array())
                .map(|a| a.iter().map(|s| s.as_str().unwrap_or("").to_string()).collect())
                .unwrap_or_default(),
            warmup: ops(v.get("warmup")),
            threads: v
                .get("threads")
                .and_then(|a| a.as_array())
                .map(|a| a.iter().map(|t| ops(Some(t))).collect())
                .unwrap_or_default(),
            sched_kind: if v.get("scheduler").and_then(|x| x.as_str()) == Some("pct") { 1 } else { 0 },
            pct_depth: v.get("pct_depth").and_then(|x| x.as_u64()).unwrap_or(2) as usize,
            sched_seed: v.get("sched_seed").and_then(|x| x.as_str()).and_then(|s| s.parse().ok()).unwrap_or(0),
            schedule: v
                .get("schedule")
                .and_then(|a| a.as_array())
                .map(|a| a.iter().map(|x| x.as_u64().unwrap_or(0) as u32).collect()),
            yield_every: v.get("yield_every").and_then(|x| x.as_u64()).unwrap_or(1),
            hash_seed: v.get("hash_seed").and_then(|x| x.as_str()).and_then(|s| s.parse().ok()).unwrap_or(1),
        }
    }
    #[allow(dead_code)]
    pub fn n_ops(&self) -> usize {
        self.warmup.len() + self.threads.iter().map(|t| t.len()).sum::<usize>()
    }
}

// ------------------------------------------------------------ hash keys seam

use std::sync::atomic::{AtomicU64, Ordering};
pub static HASH_STREAM: AtomicU64 = AtomicU64::new(0x9E37_79B9_7F4A_7C15);
pub static GETRANDOM_CALLS: AtomicU64 = AtomicU64::new(0);

/// std obtains the SipHash keys of `RandomState` through the weak libc symbol
/// `getrandom`; defining it here makes "a process with another hash seed" one
/// integer chosen by the simulator. Keys are fetched once per OS thread, so
/// every run executes on a fresh OS thread after `set_hash_seed`.
#[no_mangle]
pub unsafe extern "C" fn getrandom(buf: *mut u8, len: usize, _flags: u32) -> isize {
    GETRANDOM_CALLS.fetch_add(1, Ordering::Relaxed);
    let mut i = 0;
    while i < len {
        let mut s = HASH_STREAM.fetch_add(0x9E37_79B9_7F4A_7C15, Ordering::Relaxed);
        let x = simcommon::rng::splitmix64(&mut s);
        let b = x.to_le_bytes();
        let k = (len - i).min(8);
        std::ptr::copy_nonoverlapping(b.as_ptr(), buf.add(i), k);
        i += k;
    }
    len as isize
}

pub fn set_hash_seed(seed: u64) {
    HASH_STREAM.store(seed, Ordering::SeqCst);
}

/// Canary: the iteration order of a std HashMap built on this thread, so the
/// evidence can show that the simulator really controls (and varies) hash order.
pub fn hash_order_canary() -> u64 {
    let mut m: HashMap<(i32, i32), ()> = HashMap::new();
    for i in 0..24 {
        m.insert((i, i * 7 % 5), ());
    }
    let mut d = Digest::new();
    for (k, _) in m.iter() {
        d.u64(k.0 as u64);
    }
    d.short()
}

/// Episode profile as a function of the episode number.
pub fn episode_profile(batch: u64) -> Option<u32> {
    match batch % 8 {
        1 => Some(gen::G_LEGEND | gen::G_MUTATE),
        3 => Some(gen::G_CIRCLE | gen::G_MUTATE),
        5 => Some(gen::G_UNICODE | gen::G_TEXT | gen::G_MUTATE),
        7 => Some(gen::G_LEGEND | gen::G_TEXT),
        _ => None,
    }
}

// ------------------------------------------------------------ host logger

struct NoopLogger;
impl log::Log for NoopLogger {
    fn enabled(&self, _m: &log::Metadata) -> bool {
        true
    }
    fn log(&self, _r: &log::Record) {}
    fn flush(&self) {}
}
static NOOP_LOGGER: NoopLogger = NoopLogger;

/// The embedding application's logging configuration is ambient state too: the
/// library uses the `log` facade, and what it returns must not depend on
/// whether (and at which level) the host listens. Chosen per worker process.
pub fn install_host_logger(variant: u64) -> &'static str {
    let (level, name) = match variant % 5 {
        0 | 1 => (log::LevelFilter::Off, "off"),
        2 => (log::LevelFilter::Error, "error"),
        3 => (log::LevelFilter::Debug, "debug"),
        _ => (log::LevelFilter::Trace, "trace"),
    };
    if level != log::LevelFilter::Off {
        let _ = log::set_logger(&NOOP_LOGGER);
    }
    log::set_max_level(level);
    name
}

// ------------------------------------------------------------ thread-creation faults

extern "C" {
    fn dlsym(handle: *mut std::ffi::c_void, symbol: *const std::os::raw::c_char) -> *mut std::ffi::c_void;
}

/// Control functions of libverif_thr.so when it is preloaded (some native episodes).
#[allow(dead_code)]
pub struct ThreadFaults {
    set: extern "C" fn(i32),
    failed: extern "C" fn() -> std::os::raw::c_long,
    jumps: Option<extern "C" fn() -> std::os::raw::c_long>,
}

pub fn thread_faults() -> Option<&'static ThreadFaults> {
    static CELL: std::sync::OnceLock<Option<ThreadFaults>> = std::sync::OnceLock::new();
    CELL.get_or_init(|| unsafe {
        let a = dlsym(std::ptr::null_mut(), b"verif_thr_set\0".as_ptr() as *const _);
        let b = dlsym(std::ptr::null_mut(), b"verif_thr_failed\0".as_ptr() as *const _);
        if a.is_null() || b.is_null() {
            None
        } else {
            let c = dlsym(std::ptr::null_mut(), b"verif_clock_jumps\0".as_ptr() as *const _);
            Some(ThreadFaults {
                set: std::mem::transmute::<*mut std::ffi::c_void, extern "C" fn(i32)>(a),
                failed: std::mem::transmute::<*mut std::ffi::c_void, extern "C" fn() -> std::os::raw::c_long>(b),
                jumps: if c.is_null() { None } else { Some(std::mem::transmute::<*mut std::ffi::c_void, extern "C" fn() -> std::os::raw::c_long>(c)) },
            })
        }
    })
    .as_ref()
}

impl ThreadFaults {
    pub fn on(&self) {
        (self.set)(1)
    }
    pub fn off(&self) {
        (self.set)(0)
    }
    #[allow(dead_code)]
    pub fn fired(&self) -> u64 {
        (self.failed)() as u64
    }
    #[allow(dead_code)]
    pub fn clock_jumps(&self) -> u64 {
        self.jumps.map(|f| f() as u64).unwrap_or(0)
    }
}
