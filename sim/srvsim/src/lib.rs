//! The C20 simulator, linked into the real svgbob_server binary.
//!
//! `install` is called by the axum stand-in from inside the server's own
//! `main` (at `axum::Server::bind`). It creates the in-memory network, spawns
//! the simulator task on the server's (current-thread) runtime and returns the
//! listener that hyper's real accept loop will poll. One process = one run.

pub mod http;
pub mod net;
pub mod wl;

use http::*;
use net::*;
use simcommon::gen::Pool;
use simcommon::{json, Digest, Value};
use std::collections::BTreeMap;
use std::sync::atomic::{AtomicU64, Ordering};
use std::sync::{Arc, Mutex};
use std::time::{Duration, Instant};
use wl::*;

// ---- hash keys seam (see c07/src/core.rs for the explanation)
static HASH_STREAM: AtomicU64 = AtomicU64::new(0x9E37_79B9_7F4A_7C15);

#[no_mangle]
pub unsafe extern "C" fn getrandom(buf: *mut u8, len: usize, _flags: u32) -> isize {
    let mut i = 0;
    while i < len {
        let mut s = HASH_STREAM.fetch_add(0x9E37_79B9_7F4A_7C15, Ordering::Relaxed);
        let x = simcommon::rng::splitmix64(&mut s);
        let b = x.to_le_bytes();
        let k = (len - i).min(8);
        std::ptr::copy_nonoverlapping(b.as_ptr(), buf.add(i), k);
        i += k;
    }
    len as isize
}

fn load_run() -> (RunDesc, bool) {
    let thorough = std::env::var("VERIF_C20_THOROUGH").map(|v| v == "1").unwrap_or(false);
    if let Ok(f) = std::env::var("VERIF_C20_RUNFILE") {
        let txt = std::fs::read_to_string(&f).unwrap_or_else(|e| simcommon::harness_error(&format!("{}: {}", f, e)));
        let v: Value = simcommon::serde_json::from_str(&txt).unwrap_or_else(|e| simcommon::harness_error(&format!("{}: {}", f, e)));
        let r = v.get("run").unwrap_or(&v);
        return (RunDesc::from_json(r), thorough);
    }
    let seed: u64 = std::env::var("VERIF_C20_SEED").ok().and_then(|s| s.parse().ok()).unwrap_or(simcommon::DEFAULT_SEED);
    let idx: u64 = std::env::var("VERIF_C20_INDEX").ok().and_then(|s| s.parse().ok()).unwrap_or(0);
    (generate(seed, idx, thorough), thorough)
}

pub fn generate(seed: u64, idx: u64, thorough: bool) -> RunDesc {
    let pool = Pool::load(&simcommon::repo_dir(), 6000);
    let big: Vec<String> = pool.files.iter().filter(|f| f.1.len() > 6000 && f.1.len() <= 26_000).map(|f| f.1.clone()).collect();
    let g = RunGen { pool: &pool, big_files: big, thorough };
    g.gen_run(seed, idx)
}

/// Called from the axum stand-in, inside the server's runtime.
pub fn install(addr: std::net::SocketAddr) -> SimIncoming {
    SimIncoming { net: install_net(addr) }
}

/// For a hand-written accept loop (`tokio::net::TcpListener` stand-in).
pub fn install_listener(addr: std::net::SocketAddr) -> NetRef {
    let net = install_net(addr);
    net.lock().unwrap().manual_accept = true;
    net
}

fn install_net(addr: std::net::SocketAddr) -> NetRef {
    // keep the getrandom override linked in
    let keep: unsafe extern "C" fn(*mut u8, usize, u32) -> isize = getrandom;
    std::hint::black_box(keep);
    let (run, _thorough) = load_run();
    HASH_STREAM.store(run.hash_seed, Ordering::SeqCst);
    *BLOCKING_RNG.lock().unwrap() = Some(simcommon::Rng::new(run.hash_seed ^ 0xb10c));
    let net: NetRef = Arc::new(Mutex::new(Net::default()));
    let n2 = net.clone();
    {
        // tells the coordinator that the server reached the simulator's seam
        use std::io::Write;
        let so = std::io::stdout();
        let mut l = so.lock();
        let _ = writeln!(l, "@@C20-INSTALLED");
        let _ = l.flush();
    }
    tokio::spawn(async move {
        let out = drive(n2, run, addr.port()).await;
        use std::io::Write;
        let so = std::io::stdout();
        let mut l = so.lock();
        let _ = writeln!(l, "@@C20 {}", out);
        let _ = l.flush();
        std::process::exit(0);
    });
    net
}

struct Client {
    script: Vec<u8>,
    pos: usize,
    st: Option<Arc<Mutex<ConnState>>>,
    faulted: bool,
    fully_drained: bool,
    reqs: Vec<ReqSpec>,
    is_probe: bool,
}

// ---- completion order of work handed to the blocking pool: the tokio stand-in
// runs such work as ordinary tasks and asks here how many scheduler rounds each
// should wait first, so that the order in which overlapping requests finish
// is explored (seeded by the run) instead of always being first-in-first-out.
static BLOCKING_RNG: Mutex<Option<simcommon::Rng>> = Mutex::new(None);

pub fn blocking_delay() -> u32 {
    let mut g = BLOCKING_RNG.lock().unwrap();
    match g.as_mut() {
        Some(r) => r.below(4) as u32,
        None => 0,
    }
}

/// Work handed to the blocking pool does not start before the simulator lets
/// it: each job waits on a gate. After every step the simulator opens each
/// pending gate with probability 1/2 (seeded), and all of them before a probe
/// and at the end. A conversion can thus span several simulator actions, so
/// client faults can land while it is in flight, as in production.
static GATES: Mutex<Vec<tokio::sync::oneshot::Sender<()>>> = Mutex::new(Vec::new());

pub fn blocking_gate() -> tokio::sync::oneshot::Receiver<()> {
    let (tx, rx) = tokio::sync::oneshot::channel();
    GATES.lock().unwrap().push(tx);
    rx
}

/// Open pending gates: all of them, or each with probability 1/2. Returns how
/// many were opened.
fn open_gates(all: bool) -> usize {
    let mut pending = std::mem::take(&mut *GATES.lock().unwrap());
    let mut opened = 0;
    let mut keep = vec![];
    for tx in pending.drain(..) {
        let open = all || {
            let mut g = BLOCKING_RNG.lock().unwrap();
            g.as_mut().map(|r| r.chance(1, 2)).unwrap_or(true)
        };
        if open {
            let _ = tx.send(());
            opened += 1;
        } else {
            keep.push(tx);
        }
    }
    GATES.lock().unwrap().extend(keep);
    opened
}

fn gates_pending() -> usize {
    GATES.lock().unwrap().len()
}

// ---- idleness signal: the tokio stand-in installs `on_park` as the runtime's
// `on_thread_park` callback. The current-thread scheduler calls it exactly when
// its run queue is empty, i.e. when every task except the (waiting) simulator
// has run to a standstill. Waking a task from this callback is supported by
// tokio (it re-checks the queue before really parking).
static PARKS: AtomicU64 = AtomicU64::new(0);
static IDLE: tokio::sync::Notify = tokio::sync::Notify::const_new();

pub fn on_park() {
    PARKS.fetch_add(1, Ordering::SeqCst);
    IDLE.notify_one();
}

/// Wait until the scheduler's run queue has been empty once more.
async fn wait_park() {
    let start = PARKS.load(Ordering::SeqCst);
    loop {
        IDLE.notified().await;
        // a stale permit from an earlier park returns at once: wait for a fresh one
        if PARKS.load(Ordering::SeqCst) > start {
            return;
        }
    }
}

/// Run the system until nothing but the simulator is runnable.
///
/// One park is not enough: the park callback wakes the simulator *before* the
/// runtime polls its root future (hyper's accept loop lives there), so a task
/// spawned by that poll would still be waiting behind the simulator. Quiescent
/// means: two consecutive parks without any transport activity in between.
async fn quiesce(net: &NetRef) -> u64 {
    let mut rounds = 0;
    let mut quiet = 0;
    let mut last = net.lock().unwrap().activity;
    loop {
        wait_park().await;
        rounds += 1;
        let now = net.lock().unwrap().activity;
        if now == last {
            quiet += 1;
            if quiet >= 2 {
                return rounds;
            }
        } else {
            quiet = 0;
            last = now;
        }
        if rounds > 1_000_000 {
            return rounds;
        }
    }
}

/// Quiescence including the work parked at the blocking-pool gates: with
/// `all`, every gate is opened (repeatedly, new work may arrive) until none is
/// left; otherwise each pending gate is opened with probability 1/2, once.
async fn settle(net: &NetRef, all: bool, stats: &mut BTreeMap<String, u64>) -> u64 {
    let mut rounds = quiesce(net).await;
    loop {
        let opened = open_gates(all);
        if opened > 0 {
            *stats.entry("blocking_jobs_released".to_string()).or_default() += opened as u64;
            rounds += quiesce(net).await;
        }
        if !all || (opened == 0 && gates_pending() == 0) {
            break;
        }
    }
    if gates_pending() > 0 {
        *stats.entry("steps_with_blocking_work_in_flight".to_string()).or_default() += 1;
    }
    rounds
}

fn wake(w: Option<std::task::Waker>) {
    if let Some(w) = w {
        w.wake();
    }
}

fn open_conn(net: &NetRef, id: usize, window: usize) -> Arc<Mutex<ConnState>> {
    let st = Arc::new(Mutex::new(ConnState { id, window, ..Default::default() }));
    let mut n = net.lock().unwrap();
    n.conns.push(st.clone());
    n.accept_q.push_back(SimStream { st: st.clone(), net: net.clone() });
    n.ev(format!("open c{}", id));
    let w = n.accept_waker.take();
    drop(n);
    wake(w);
    st
}

fn responses_complete(c: &Client) -> bool {
    let st = match &c.st {
        Some(s) => s,
        None => return false,
    };
    let s = st.lock().unwrap();
    let heads: Vec<bool> = c.reqs.iter().map(|r| r.method == "HEAD").collect();
    let p = parse_stream(&s.outbound, &heads, s.server_dropped || s.server_shutdown);
    p.malformed.is_some() || (p.responses.len() >= c.reqs.len() && p.responses.iter().all(|r| r.complete)) || s.server_dropped
}

/// Where in the request stream does byte offset `off` fall?
fn cut_phase(reqs: &[ReqSpec], off: usize) -> &'static str {
    let mut start = 0;
    for r in reqs {
        let b = r.to_bytes();
        if off == start {
            return if start == 0 { "at_start" } else { "between_requests" };
        }
        if off < start + b.len() {
            let rel = off - start;
            let line_end = b.windows(2).position(|w| w == b"\r\n").unwrap_or(b.len());
            let head_end = b.windows(4).position(|w| w == b"\r\n\r\n").map(|p| p + 4).unwrap_or(b.len());
            return if rel <= line_end {
                "in_request_line"
            } else if rel < head_end {
                "in_headers"
            } else {
                "in_body"
            };
        }
        start += b.len();
    }
    "at_end"
}

async fn drive(net: NetRef, run: RunDesc, port: u16) -> Value {
    let t0 = Instant::now();
    let mut stats: BTreeMap<String, u64> = BTreeMap::new();
    let bump = |k: &str, n: u64, stats: &mut BTreeMap<String, u64>| *stats.entry(k.to_string()).or_default() += n;
    let mut clients: Vec<Client> = run
        .conns
        .iter()
        .map(|reqs| Client {
            script: reqs.iter().flat_map(|r| r.to_bytes()).collect(),
            pos: 0,
            st: None,
            faulted: false,
            fully_drained: false,
            reqs: reqs.clone(),
            is_probe: false,
        })
        .collect();
    let mut probes: Vec<Client> = vec![];
    let mut liveness_failures: Vec<String> = vec![];
    quiesce(&net).await;
    let mut steps = 0u64;
    let mut holding = false;
    let mut quiesce_rounds = 0u64;
    let n_actions = run.actions.len();
    let mut actions: Vec<Action> = run.actions.clone();
    actions.push(Action::Probe); // after the last fault a probe must always succeed
    for (ai, a) in actions.iter().enumerate() {
        steps += 1;
        net.lock().unwrap().log.push(format!("# {:?}", a));
        match a {
            Action::Open(c) => {
                if let Some(cl) = clients.get_mut(*c) {
                    if cl.st.is_none() {
                        cl.st = Some(open_conn(&net, *c, 0));
                        bump("open", 1, &mut stats);
                    }
                }
            }
            Action::Deliver(c, n) => {
                if let Some(cl) = clients.get_mut(*c) {
                    if let Some(st) = &cl.st {
                        let n = (*n).min(cl.script.len() - cl.pos);
                        if n > 0 {
                            let w = {
                                let mut s = st.lock().unwrap();
                                s.inbound.extend(&cl.script[cl.pos..cl.pos + n]);
                                s.read_waker.take()
                            };
                            cl.pos += n;
                            net.lock().unwrap().ev(format!("deliver c{} {}", c, n));
                            wake(w);
                            bump("deliver", 1, &mut stats);
                            bump("delivered_bytes", n as u64, &mut stats);
                            if cl.pos < cl.script.len() {
                                bump(&format!("cut_{}", cut_phase(&cl.reqs, cl.pos)), 1, &mut stats);
                            }
                        }
                    }
                }
            }
            Action::Drain(c, _) | Action::DrainAll(c) => {
                let all = matches!(a, Action::DrainAll(_));
                let n = if let Action::Drain(_, n) = a { *n } else { usize::MAX };
                if let Some(cl) = clients.get_mut(*c) {
                    if let Some(st) = &cl.st {
                        let w = {
                            let mut s = st.lock().unwrap();
                            s.window = if all { usize::MAX } else { s.window.saturating_add(n) };
                            s.write_waker.take()
                        };
                        if all {
                            cl.fully_drained = true;
                        }
                        net.lock().unwrap().ev(format!("drain c{} {}", c, if all { "all".to_string() } else { n.to_string() }));
                        wake(w);
                        bump("drain", 1, &mut stats);
                    }
                }
            }
            Action::HalfClose(c) | Action::Close(c) | Action::Reset(c) => {
                if let Some(cl) = clients.get_mut(*c) {
                    if let Some(st) = &cl.st {
                        let (rw, ww, got) = {
                            let mut s = st.lock().unwrap();
                            match a {
                                Action::HalfClose(_) => s.in_eof = true,
                                Action::Close(_) => s.closed_by_client = true,
                                _ => s.reset = true,
                            }
                            (s.read_waker.take(), s.write_waker.take(), s.outbound.len())
                        };
                        cl.faulted = true;
                        let name = match a {
                            Action::HalfClose(_) => "half_close",
                            Action::Close(_) => "close",
                            _ => "reset",
                        };
                        net.lock().unwrap().ev(format!("{} c{}", name, c));
                        wake(rw);
                        wake(ww);
                        bump(&format!("fault_{}", name), 1, &mut stats);
                        let phase = if cl.pos < cl.script.len() { format!("request_{}", cut_phase(&cl.reqs, cl.pos)) } else if got == 0 { "before_response".to_string() } else { "during_or_after_response".to_string() };
                        bump(&format!("fault_at_{}", phase), 1, &mut stats);
                    }
                }
            }
            Action::Hold | Action::Release => {}
            Action::AcceptOutage(ms) => {
                let manual = net.lock().unwrap().manual_accept;
                if manual {
                    {
                        let mut n = net.lock().unwrap();
                        n.accept_outage = true;
                        n.ev(format!("accept-outage {}ms", ms));
                        let w = n.accept_waker.take();
                        drop(n);
                        wake(w);
                    }
                    // time passes; the server keeps trying in whatever rhythm it has
                    let mut left = *ms;
                    while left > 0 {
                        settle(&net, false, &mut stats).await;
                        let step = left.min(100);
                        tokio::time::advance(Duration::from_millis(step)).await;
                        left -= step;
                    }
                    {
                        let mut n = net.lock().unwrap();
                        n.accept_outage = false;
                        n.ev("accept-outage over".to_string());
                    }
                    bump("fault_accept_outage", 1, &mut stats);
                    bump("simulated_ms", *ms, &mut stats);
                }
            }
            Action::AcceptError(e) => {
                let mut n = net.lock().unwrap();
                if n.manual_accept {
                    n.accept_errors.push_back(*e);
                    n.ev(format!("accept-error {}", e));
                    let w = n.accept_waker.take();
                    drop(n);
                    wake(w);
                    bump("fault_accept_error", 1, &mut stats);
                }
            }
            Action::Tick(ms) => {
                tokio::time::advance(Duration::from_millis(*ms)).await;
                net.lock().unwrap().ev(format!("tick {}ms", ms));
                bump("ticks", 1, &mut stats);
                bump("simulated_ms", *ms, &mut stats);
            }
            Action::Probe => {
                let id = 1000 + probes.len();
                let reqs = vec![
                    ReqSpec { method: "GET".into(), path: "/".into(), version: "1.1".into(), headers: vec![], body: BodySpec::None, framing: Framing::None, raw: None },
                    ReqSpec {
                        method: "POST".into(),
                        path: "/".into(),
                        version: "1.1".into(),
                        headers: vec![],
                        body: BodySpec::Bytes(format!("+--+\n|p{}|\n+--+\n", probes.len()).into_bytes()),
                        framing: Framing::ContentLength,
                        raw: None,
                    },
                ];
                let script: Vec<u8> = reqs.iter().flat_map(|r| r.to_bytes()).collect();
                let st = open_conn(&net, id, usize::MAX);
                {
                    let mut s = st.lock().unwrap();
                    s.inbound.extend(&script);
                }
                let stalled = clients.iter().filter(|c| c.st.is_some() && !c.faulted && c.pos < c.script.len()).count();
                if stalled > 0 {
                    bump("probe_while_conn_mid_request", 1, &mut stats);
                }
                bump("probe", 1, &mut stats);
                let len = script.len();
                probes.push(Client { script, pos: len, st: Some(st), faulted: false, fully_drained: true, reqs, is_probe: true });
            }
        }
        match a {
            Action::Hold => holding = true,
            Action::Release => holding = false,
            _ => {}
        }
        if holding && !matches!(a, Action::Probe) {
            bump("batched_actions", 1, &mut stats);
            continue;
        }
        quiesce_rounds += settle(&net, matches!(a, Action::Probe), &mut stats).await;
        if let Action::Probe = a {
            // bounded liveness: the probe must be answered once the system is quiet.
            let p = probes.last().unwrap();
            // bounded liveness in simulated time: a server may be sitting in a
            // timer (back-off after a failed accept, say); give it up to 10
            // simulated seconds of quiet before looking at the wall clock
            let mut waited_ms = 0u64;
            while !responses_complete(p) && waited_ms < 10_000 {
                tokio::time::advance(Duration::from_millis(100)).await;
                waited_ms += 100;
                settle(&net, true, &mut stats).await;
            }
            if waited_ms > 0 {
                bump("probe_needed_simulated_time_ms", waited_ms, &mut stats);
                bump("simulated_ms", waited_ms, &mut stats);
            }
            if !responses_complete(p) {
                // a server that computes on other threads needs wall-clock time, not steps
                if std::env::var("VERIF_C20_DEBUG").is_ok() {
                    let st = p.st.as_ref().unwrap().lock().unwrap();
                    eprintln!("probe {} after action {} incomplete: got {:?} inbound_left={} window={}", probes.len() - 1, ai, simcommon::escape_bytes(&st.outbound), st.inbound.len(), st.window);
                }
                // wall-clock patience only as long as something still happens
                let mut deadline = Instant::now() + Duration::from_secs(8);
                let hard_deadline = Instant::now() + Duration::from_secs(60);
                let mut seen = net.lock().unwrap().activity;
                while !responses_complete(p) && Instant::now() < deadline && Instant::now() < hard_deadline {
                    std::thread::sleep(Duration::from_millis(2));
                    settle(&net, true, &mut stats).await;
                    bump("waited_for_other_threads", 1, &mut stats);
                    let now = net.lock().unwrap().activity;
                    if now != seen {
                        seen = now;
                        deadline = Instant::now() + Duration::from_secs(8);
                    }
                }
                if !responses_complete(p) {
                    liveness_failures.push(format!("probe {} (after action {} of {}) was not answered", probes.len() - 1, ai, n_actions));
                    // the verdict for this run is in; do not wait out every later probe as well
                    break;
                }
            }
        }
    }
    // faults have stopped; everything that was never faulted and was fully
    // delivered with an open window must complete (wall-clock wait only if the
    // server works on other threads)
    let pending = |clients: &Vec<Client>| {
        clients.iter().any(|c| {
            c.st.is_some()
                && !c.faulted
                && c.fully_drained
                && c.pos == c.script.len()
                && c.reqs.iter().all(|r| !matches!(model(r), Expect::Unspecified(_)))
                && !responses_complete(c)
        })
    };
    settle(&net, true, &mut stats).await;
    {
        let mut waited_ms = 0u64;
        while pending(&clients) && waited_ms < 10_000 {
            tokio::time::advance(Duration::from_millis(100)).await;
            waited_ms += 100;
            settle(&net, true, &mut stats).await;
        }
        if waited_ms > 0 {
            bump("simulated_ms", waited_ms, &mut stats);
        }
    }
    if pending(&clients) {
        if std::env::var("VERIF_C20_DEBUG").is_ok() {
            for (i, c) in clients.iter().enumerate() {
                if let Some(st) = &c.st {
                    let done = responses_complete(c);
                    let st = st.lock().unwrap();
                    eprintln!("conn {} faulted={} drained={} pos={}/{} complete={} inbound_left={} window={} srv_dropped={} out_len={} reqs={:?}", i, c.faulted, c.fully_drained, c.pos, c.script.len(), done, st.inbound.len(), st.window, st.server_dropped, st.outbound.len(), c.reqs.iter().map(|r| model(r).name()).collect::<Vec<_>>());
                }
            }
        }
        let deadline = Instant::now() + Duration::from_secs(if liveness_failures.is_empty() { 30 } else { 1 });
        while pending(&clients) && Instant::now() < deadline {
            std::thread::sleep(Duration::from_millis(2));
            settle(&net, true, &mut stats).await;
            bump("waited_for_other_threads", 1, &mut stats);
        }
    }

    // ---------------------------------------------------------------- oracle
    let banner = banner();
    let mut violations: Vec<Value> = vec![];
    for l in &liveness_failures {
        violations.push(json!({"class": "liveness", "detail": l}));
    }
    let mut statuses: BTreeMap<String, u64> = BTreeMap::new();
    let mut checked = 0u64;
    let mut dropped_expectations = 0u64;
    let mut resp_digest = Digest::new();
    let mut lib_cache: BTreeMap<Vec<u8>, Option<String>> = BTreeMap::new();
    for (ci, c) in clients.iter().chain(probes.iter()).enumerate() {
        let st = match &c.st {
            Some(s) => s,
            None => continue,
        };
        let s = st.lock().unwrap();
        let cid = s.id;
        let heads: Vec<bool> = c.reqs.iter().map(|r| r.method == "HEAD").collect();
        let eof = s.server_dropped || s.server_shutdown;
        let p = parse_stream(&s.outbound, &heads, eof);
        if let Some(m) = &p.malformed {
            violations.push(json!({"class": "malformed-response", "conn": cid, "detail": m}));
            continue;
        }
        // bytes after a mis-framed request are legitimately parsed as further requests
        let well_framed = c.reqs.iter().all(|r| r.raw.is_none() && !matches!(r.framing, Framing::Lying(_)));
        if p.responses.len() > c.reqs.len() && well_framed {
            violations.push(json!({"class": "unsolicited-response", "conn": cid, "detail": format!("{} responses for {} requests", p.responses.len(), c.reqs.len())}));
        }
        if s.short_writes > 0 {
            bump("short_writes", s.short_writes, &mut stats);
        }
        if s.write_blocked > 0 {
            bump("write_backpressure", s.write_blocked, &mut stats);
        }
        bump("read_errors_injected", s.read_errors, &mut stats);
        bump("write_errors_injected", s.write_errors, &mut stats);
        if c.reqs.len() >= 2 && p.responses.iter().filter(|r| r.complete).count() >= 2 {
            bump("keepalive_reuse", 1, &mut stats);
        }
        let complete_and_clean = !c.faulted && c.fully_drained && c.pos == c.script.len();
        for (ri, req) in c.reqs.iter().enumerate() {
            let resp = p.responses.get(ri);
            let exp = model(req);
            if let Some(r) = resp {
                if r.head_complete || r.status != 0 {
                    *statuses.entry(format!("{}:{}", exp.name(), r.status)).or_default() += 1;
                }
                // mask the date header, digest the rest
                resp_digest.u64(r.status as u64);
                resp_digest.bytes(&r.body);
                for (k, v) in &r.headers {
                    if !k.eq_ignore_ascii_case("date") {
                        resp_digest.str(k);
                        resp_digest.str(v);
                    }
                }
            }
            if matches!(req.framing, Framing::Chunked(_)) {
                bump("chunked_upload", 1, &mut stats);
            }
            let where_ = json!({"conn": cid, "req": ri, "kind": exp.name(), "probe": c.is_probe});
            match &exp {
                Expect::Unspecified(_) => {}
                Expect::Banner | Expect::BadRequest | Expect::Svg(_) => {
                    let (want_status, want_body): (u16, Option<Vec<u8>>) = match &exp {
                        // the statement fixes what a GET returns (package name and version), not its exact layout
                        Expect::Banner => (200, None),
                        Expect::BadRequest => (400, None),
                        Expect::Svg(body) => {
                            let doc = lib_cache.entry(body.clone()).or_insert_with(|| library(body)).clone();
                            match doc {
                                Some(d) => (200, Some(d.into_bytes())),
                                None => {
                                    dropped_expectations += 1;
                                    continue; // the library itself panics on this body: C01's business
                                }
                            }
                        }
                        _ => unreachable!(),
                    };
                    match resp {
                        Some(r) => {
                            checked += 1;
                            if r.status != 0 && r.status != want_status {
                                violations.push(json!({"class": "wrong-status", "at": where_, "detail": format!("status {} instead of {}", r.status, want_status)}));
                                continue;
                            }
                            if matches!(exp, Expect::Banner) && r.complete {
                                let got = String::from_utf8_lossy(&r.body).to_string();
                                let mut parts = banner.splitn(2, ' ');
                                let (name, version) = (parts.next().unwrap_or(""), parts.next().unwrap_or(""));
                                if !(got.contains(name) && got.contains(version)) || got.len() > 200 {
                                    violations.push(json!({"class": "wrong-body", "at": where_, "detail": format!("GET / answered {:?}, expected the package name and version ({})", simcommon::preview(&got, 80), banner)}));
                                    continue;
                                }
                            }
                            if let Some(wb) = &want_body {
                                if !wb.starts_with(&r.body) {
                                    let i = wb.iter().zip(r.body.iter()).position(|(a, b)| a != b).unwrap_or(wb.len().min(r.body.len()));
                                    violations.push(json!({"class": "wrong-body", "at": where_, "detail": format!("body differs from the library's conversion at byte {} (got {} bytes, want {}): …{}… vs …{}…", i, r.body.len(), wb.len(), simcommon::escape_bytes(&r.body[i.saturating_sub(20)..(i + 30).min(r.body.len())]), simcommon::escape_bytes(&wb[i.saturating_sub(20)..(i + 30).min(wb.len())]))}));
                                    continue;
                                }
                                if r.complete && r.body.len() != wb.len() {
                                    violations.push(json!({"class": "wrong-body", "at": where_, "detail": format!("complete response carries {} of {} bytes", r.body.len(), wb.len())}));
                                    continue;
                                }
                            }
                            if !r.complete && complete_and_clean {
                                violations.push(json!({"class": "incomplete-response", "at": where_, "detail": format!("{} body bytes received, connection never disturbed", r.body.len())}));
                            }
                            if !r.complete {
                                bump(if r.head_complete { "response_cut_in_body" } else { "response_cut_in_headers" }, 1, &mut stats);
                            }
                        }
                        None => {
                            if complete_and_clean {
                                violations.push(json!({"class": "no-response", "at": where_, "detail": "well-formed request on an undisturbed connection was never answered"}));
                            }
                        }
                    }
                }
            }
        }
        let _ = ci;
    }
    let n = net.lock().unwrap();
    if std::env::var("VERIF_C20_DEBUG").is_ok() {
        let k = n.log.len();
        for l in n.log.iter().take(30) {
            eprintln!("LOG {}", l);
        }
        eprintln!("LOG ... {} lines", k);
        for l in n.log.iter().skip(k.saturating_sub(30)) {
            eprintln!("LOG {}", l);
        }
    }
    let mut log_digest = Digest::new();
    for l in &n.log {
        log_digest.str(l);
    }
    let expect_kinds: BTreeMap<String, u64> = clients.iter().flat_map(|c| c.reqs.iter()).fold(BTreeMap::new(), |mut m, r| {
        *m.entry(model(r).name().to_string()).or_default() += 1;
        m
    });
    // abstract action sequence for the interleaving measure
    let mut abs = Digest::new();
    for a in &run.actions {
        abs.str(&format!("{:?}", a.to_json().get(0)));
        abs.u64(a.conn().map(|c| c as u64 + 1).unwrap_or(0));
    }
    json!({
        "idx": run.idx,
        "port": port,
        "violations": violations,
        "stats": stats,
        "statuses": statuses,
        "expect_kinds": expect_kinds,
        "responses_checked": checked,
        "dropped_expectations_library_panics": dropped_expectations,
        "conns": clients.len(),
        "requests": clients.iter().map(|c| c.reqs.len() as u64).sum::<u64>(),
        "steps": steps,
        "quiesce_rounds": quiesce_rounds,
        "accepts": n.accepts,
        "events": n.log.len(),
        "log_digest": log_digest.hex(),
        "response_digest": resp_digest.hex(),
        "interleaving": format!("{:016x}", abs.short()),
        "faulted_conns": clients.iter().filter(|c| c.faulted).count(),
        "wall_ms": t0.elapsed().as_millis() as u64,
    })
}

#[derive(Clone, Debug)]
pub enum Expect {
    Banner,
    Svg(Vec<u8>),
    BadRequest,
    Unspecified(&'static str),
}

impl Expect {
    pub fn name(&self) -> &'static str {
        match self {
            Expect::Banner => "get-banner",
            Expect::Svg(_) => "post-utf8",
            Expect::BadRequest => "post-invalid-utf8",
            Expect::Unspecified(k) => k,
        }
    }
}

/// The reference model of the server contract (property C20), as a function
/// of the request alone.
pub fn model(r: &ReqSpec) -> Expect {
    if r.raw.is_some() {
        return Expect::Unspecified("malformed");
    }
    if matches!(r.framing, Framing::Lying(_)) {
        return Expect::Unspecified("lying-content-length");
    }
    let body = r.body.bytes();
    match (r.method.as_str(), r.path.as_str()) {
        ("GET", "/") if body.is_empty() => Expect::Banner,
        ("POST", "/") => {
            if body.len() > BODY_LIMIT {
                Expect::Unspecified("oversized")
            } else if std::str::from_utf8(&body).is_ok() {
                Expect::Svg(body)
            } else {
                Expect::BadRequest
            }
        }
        ("HEAD", "/") => Expect::Unspecified("head"),
        _ => Expect::Unspecified("other-method-or-path"),
    }
}

/// `svgbob::to_svg` of the body, computed on a roomy stack; None if it panics.
fn library(body: &[u8]) -> Option<String> {
    let text = String::from_utf8(body.to_vec()).ok()?;
    let h = std::thread::Builder::new()
        .stack_size(256 << 20)
        .spawn(move || {
            let prev = std::panic::take_hook();
            std::panic::set_hook(Box::new(|_| {}));
            let r = std::panic::catch_unwind(|| svgbob::to_svg(&text)).ok();
            std::panic::set_hook(prev);
            r
        })
        .ok()?;
    h.join().ok().flatten()
}

/// "<package name> <version>" read from the server crate's manifest, not from its code.
pub fn banner() -> String {
    let man = format!("{}/crates/svgbob_server/Cargo.toml", simcommon::repo_dir());
    let txt = std::fs::read_to_string(&man).unwrap_or_default();
    let mut name = String::new();
    let mut version = String::new();
    let mut in_pkg = false;
    for l in txt.lines() {
        let t = l.trim();
        if t.starts_with('[') {
            in_pkg = t == "[package]";
            continue;
        }
        if in_pkg {
            if let Some((k, v)) = t.split_once('=') {
                let v = v.trim().trim_matches('"').to_string();
                match k.trim() {
                    "name" => name = v,
                    "version" => version = v,
                    _ => {}
                }
            }
        }
    }
    format!("{} {}", name, version)
}
