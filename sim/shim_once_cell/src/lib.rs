//! `once_cell` as seen by svgbob in the simulation build.
//!
//! Everything is the real once_cell except `sync::Lazy`, which inside a shuttle
//! execution becomes shuttle's `Lazy`: initialisation is mediated by shuttle's
//! `Once` (so first-use races are scheduled by the simulator), the value lives
//! in per-execution storage (so every execution starts with cold tables), and
//! each access can be a scheduling point. Outside a shuttle execution it falls
//! back to the real `once_cell::sync::Lazy`.

pub use real_once_cell::{race, unsync};

/// `std::sync` as seen by the simulation build when the library's own source
/// names it (the shadow copy of the source rewrites `std::sync::` to this
/// module, see `gen_shadow_lib` in /verif/check): shuttle's scheduler-aware
/// primitives where shuttle has them, std's for the rest. With this, code that
/// synchronises through raw std types (atomics, Mutex, RwLock, Once, Condvar)
/// gets a scheduling point at every such operation instead of being invisible
/// to the simulator.
pub mod stdsync {
    pub use shuttle::sync::{Barrier, BarrierWaitResult, Condvar, Mutex, MutexGuard, Once, OnceState, RwLock, RwLockReadGuard, RwLockWriteGuard, WaitTimeoutResult};
    pub use std::sync::*;
    pub mod atomic {
        pub use shuttle::sync::atomic::*;
    }
    pub mod mpsc {
        pub use shuttle::sync::mpsc::*;
    }
}

/// `std::thread` for the same purpose: spawned threads become shuttle tasks.
pub mod stdthread {
    pub use shuttle::thread::{current, panicking, park, sleep, spawn, yield_now, Builder, JoinHandle, Thread, ThreadId};
    pub use std::thread::*;
}

/// `thread_local!` with one instance per simulated thread (shuttle task).
/// (In its own module: at the crate root it would shadow std's macro for this
/// crate's own thread-locals.)
pub mod simtls {
    pub use shuttle::thread_local;
}

use std::cell::Cell;
use std::sync::atomic::{AtomicU64, AtomicUsize, Ordering};

thread_local! {
    /// Set by the harness on the OS thread that drives a shuttle execution.
    static SIM_ACTIVE: Cell<bool> = const { Cell::new(false) };
    static ACCESS_COUNT: Cell<u64> = const { Cell::new(0) };
    static YIELD_EVERY: Cell<u64> = const { Cell::new(1) };
    static YIELD_SALT: Cell<u64> = const { Cell::new(0) };
}

/// Observer installed by the harness: (table address, event) where event is
/// 0 = access (before the scheduling point), 1 = entering the table's `get`
/// (which initialises it, or waits for the initialising thread), 2 = `get` returned.
pub type Observer = fn(usize, u8);
static OBSERVER: AtomicUsize = AtomicUsize::new(0);
pub static TOTAL_ACCESSES: AtomicU64 = AtomicU64::new(0);

pub fn set_observer(f: Observer) {
    OBSERVER.store(f as usize, Ordering::SeqCst);
}

#[inline]
fn observe(addr: usize, ev: u8) {
    let p = OBSERVER.load(Ordering::Relaxed);
    if p != 0 {
        let f: Observer = unsafe { std::mem::transmute::<usize, Observer>(p) };
        f(addr, ev);
    }
}

/// Turn simulation mode on for the current OS thread. `yield_every` = 1 makes
/// every table access a scheduling point; larger values thin them out
/// deterministically (salted by `salt`).
pub fn sim_begin(yield_every: u64, salt: u64) {
    SIM_ACTIVE.with(|c| c.set(true));
    ACCESS_COUNT.with(|c| c.set(0));
    YIELD_EVERY.with(|c| c.set(yield_every.max(1)));
    YIELD_SALT.with(|c| c.set(salt));
}

pub fn sim_end() -> u64 {
    SIM_ACTIVE.with(|c| c.set(false));
    ACCESS_COUNT.with(|c| c.get())
}

pub fn sim_active() -> bool {
    SIM_ACTIVE.with(|c| c.get())
}

#[inline]
fn mix(mut z: u64) -> u64 {
    z = (z ^ (z >> 30)).wrapping_mul(0xBF58_476D_1CE4_E5B9);
    z = (z ^ (z >> 27)).wrapping_mul(0x94D0_49BB_1331_11EB);
    z ^ (z >> 31)
}

pub mod sync {
    pub use real_once_cell::sync::OnceCell;
    use std::ops::Deref;

    pub struct Lazy<T: Sync + 'static> {
        sim: shuttle::lazy_static::Lazy<T>,
        real: real_once_cell::sync::Lazy<T>,
        init: fn() -> T,
    }

    impl<T: Sync + 'static> Lazy<T> {
        pub const fn new(init: fn() -> T) -> Self {
            Lazy { sim: shuttle::lazy_static::Lazy::new(init), real: real_once_cell::sync::Lazy::new(init), init }
        }

        pub fn force(this: &Lazy<T>) -> &T {
            this.get()
        }

        fn get(&self) -> &T {
            if !super::sim_active() {
                return &self.real;
            }
            let addr = self as *const Self as usize;
            let n = super::ACCESS_COUNT.with(|c| {
                let n = c.get() + 1;
                c.set(n);
                n
            });
            super::observe(addr, 0);
            let every = super::YIELD_EVERY.with(|c| c.get());
            if every <= 1 || super::mix(n ^ super::YIELD_SALT.with(|c| c.get())) % every == 0 {
                // a plain scheduling point (shuttle does not model time)
                shuttle::thread::sleep(std::time::Duration::ZERO);
            }
            // SAFETY: every `Lazy` in svgbob is a `static`; shuttle needs the
            // 'static lifetime to key its per-execution storage by address.
            let this: &'static Self = unsafe { &*(self as *const Self) };
            let _ = this.init;
            super::observe(addr, 1);
            let v = this.sim.get();
            super::observe(addr, 2);
            v
        }
    }

    impl<T: Sync + 'static> Deref for Lazy<T> {
        type Target = T;
        fn deref(&self) -> &T {
            self.get()
        }
    }
}
