//! Workload generators shared by the three simulators: diagram texts and
//! settings. Everything is a function of the `Rng` handed in.

use crate::rng::Rng;

/// Mirror of `svgbob::Settings` (kept here so this crate does not link svgbob).
#[derive(Clone, Debug, PartialEq)]
pub struct SettingsSpec {
    pub font_size: usize,
    pub font_family: String,
    pub fill_color: String,
    pub background: String,
    pub stroke_color: String,
    pub stroke_width: f32,
    pub scale: f32,
    pub include_backdrop: bool,
    pub include_styles: bool,
    pub include_defs: bool,
}

impl Default for SettingsSpec {
    fn default() -> Self {
        SettingsSpec {
            font_size: 14,
            font_family: "Iosevka Fixed, monospace".into(),
            fill_color: "black".into(),
            background: "white".into(),
            stroke_color: "black".into(),
            stroke_width: 2.0,
            scale: 8.0,
            include_backdrop: true,
            include_styles: true,
            include_defs: true,
        }
    }
}

impl SettingsSpec {
    pub fn for_debug() -> Self {
        SettingsSpec {
            include_backdrop: false,
            include_styles: false,
            include_defs: false,
            ..Default::default()
        }
    }
    pub fn key(&self) -> String {
        format!(
            "fs={};ff={};fc={};bg={};sc={};sw={};s={};b={}{}{}",
            self.font_size,
            self.font_family,
            self.fill_color,
            self.background,
            self.stroke_color,
            self.stroke_width,
            self.scale,
            self.include_backdrop as u8,
            self.include_styles as u8,
            self.include_defs as u8
        )
    }
}

pub const COLORS: &[&str] = &[
    "red", "blue", "#fff", "#00ff7f", "rgb(1,2,3)", "black", "white", "transparent", "none", "hsl(10,20%,30%)",
];
pub const FONTS: &[&str] = &["monospace", "arial", "Courier New", "Iosevka Fixed, monospace", "serif", "a-b_c"];
pub const SCALES: &[f32] = &[0.5, 1.0, 3.0, 8.0, 10.0, 20.0, 37.5];

pub fn gen_settings(rng: &mut Rng) -> SettingsSpec {
    match rng.below(10) {
        0..=3 => SettingsSpec::default(),
        4 => SettingsSpec::for_debug(),
        _ => {
            let mut s = SettingsSpec::default();
            if rng.chance(1, 2) {
                s.scale = *rng.pick(SCALES);
            }
            if rng.chance(1, 3) {
                s.font_size = *rng.pick(&[8usize, 10, 12, 14, 16, 24, 1, 100]);
            }
            if rng.chance(1, 3) {
                s.font_family = rng.pick(FONTS).to_string();
            }
            if rng.chance(1, 3) {
                s.fill_color = rng.pick(COLORS).to_string();
            }
            if rng.chance(1, 3) {
                s.background = rng.pick(COLORS).to_string();
            }
            if rng.chance(1, 3) {
                s.stroke_color = rng.pick(COLORS).to_string();
            }
            if rng.chance(1, 3) {
                s.stroke_width = *rng.pick(&[0.5f32, 1.0, 2.0, 3.0, 4.5]);
            }
            if rng.chance(1, 4) {
                s.include_backdrop = rng.chance(1, 2);
                s.include_styles = rng.chance(1, 2);
                s.include_defs = rng.chance(1, 2);
            }
            s
        }
    }
}

/// Which families of generators a run may use (swarm variation).
#[derive(Clone, Copy, Debug)]
pub struct GenMask(pub u32);

pub const G_FILE: u32 = 1 << 0;
pub const G_PARA: u32 = 1 << 1;
pub const G_WINDOW: u32 = 1 << 2;
pub const G_GRID: u32 = 1 << 3;
pub const G_CIRCLE: u32 = 1 << 4;
pub const G_UNICODE: u32 = 1 << 5;
pub const G_TEXT: u32 = 1 << 6;
pub const G_LEGEND: u32 = 1 << 7;
pub const G_MUTATE: u32 = 1 << 8;
pub const G_TINY: u32 = 1 << 9;
pub const G_ALL: u32 = (1 << 10) - 1;
pub const GEN_NAMES: &[&str] = &[
    "file", "paragraph", "window", "grid", "circle", "unicode", "text", "legend", "mutation", "tiny",
];

impl GenMask {
    pub fn swarm(rng: &mut Rng) -> GenMask {
        if rng.chance(1, 4) {
            return GenMask(G_ALL);
        }
        let mut m = 0u32;
        for i in 0..10 {
            if rng.chance(1, 2) {
                m |= 1 << i;
            }
        }
        if m & !G_MUTATE == 0 {
            m |= G_PARA | G_GRID;
        }
        GenMask(m)
    }
}

pub struct Pool {
    pub files: Vec<(String, String)>,
    pub paragraphs: Vec<String>,
    pub circle_paras: Vec<String>,
    pub max_file: usize,
}

const ALPHABET: &[&str] = &[
    "-", "|", "+", "/", "\\", ".", "'", "*", "#", "<", ">", "^", "v", "V", "o", "O", "_", "=", "~", ":", "(", ")", "[",
    "]", "{", "}", "\"", ",", "`", "!", "x", "a", "Z", "0", "&", "┌", "─", "│", "┼", "╭", "╯", "═", "║", "╬", "▲",
    "▶", "●", "○", "└", "┘", "┐", "├", "┤", "┬", "┴", "╰", "╮", "◀", "▼", "文", "é",
];
const LINE_CHARS: &[&str] = &["-", "|", "+", "/", "\\", ".", "'", "*", "_", "=", ":", "~"];
const UNICODE_CHARS: &[&str] = &[
    "┌", "─", "┐", "│", "└", "┘", "├", "┤", "┬", "┴", "┼", "╭", "╮", "╯", "╰", "═", "║", "╔", "╗", "╚", "╝", "╠", "╣",
    "╦", "╩", "╬", "▲", "▼", "◀", "▶", "●", "○", "◯", "━", "┃", "┏", "┓", "┗", "┛", "╱", "╲", "╳", "█", "▒", "文", "字",
    "é", "ö", "λ", "→", "…", "\u{301}", "\u{200b}", "😀",
];
const WORDS: &[&str] = &[
    "svgbob", "Hello", "world", "text", "a", "I/O", "x-y", "f(x)", "1.5", "<b>", "&amp;", "it's", "\"q\"", "--", "|pipe|",
    "CJK文字", "tab\there", "end.", "{a}", "{b}", "*bold*", "_under_", "->", "<-", "a=b",
];
const LEGEND_STYLES: &[&str] = &[
    "fill:blue", "fill:yellow;", "stroke:red;", "fill:papayawhip", "stroke-width:4", "fill:#0f0;stroke:#00f;", "",
];

impl Pool {
    /// Build the pool from /repo's test data. `max_file` bounds whole-file inputs.
    pub fn load(repo: &str, max_file: usize) -> Pool {
        let dir = format!("{}/crates/svgbob/test_data", repo);
        let mut files = vec![];
        let mut names: Vec<_> = match std::fs::read_dir(&dir) {
            Ok(rd) => rd.filter_map(|e| e.ok()).map(|e| e.path()).collect(),
            Err(_) => vec![],
        };
        names.sort();
        for p in names {
            if p.extension().map(|e| e == "bob").unwrap_or(false) {
                if let Ok(t) = std::fs::read_to_string(&p) {
                    files.push((p.file_name().unwrap().to_string_lossy().to_string(), t));
                }
            }
        }
        if files.is_empty() {
            // keep the simulators usable if test_data disappears
            files.push((
                "builtin.bob".into(),
                "+------+   .-.\n| box  |->( o )\n+------+   '-'\n\n  /\\  \"quoted -- text\"\n /  \\   *--o\n/____\\\n".into(),
            ));
        }
        let mut paragraphs = vec![];
        let mut circle_paras = vec![];
        for (name, t) in &files {
            let mut cur = String::new();
            for line in t.lines() {
                if line.trim().is_empty() {
                    if cur.lines().count() >= 2 && cur.len() <= 4000 {
                        if name.contains("circle") {
                            circle_paras.push(cur.clone());
                        }
                        paragraphs.push(cur.clone());
                    }
                    cur.clear();
                } else {
                    cur.push_str(line);
                    cur.push('\n');
                }
            }
            if cur.lines().count() >= 2 && cur.len() <= 4000 {
                paragraphs.push(cur);
            }
        }
        if circle_paras.is_empty() {
            circle_paras.push(" .-.\n(   )\n '-'\n".into());
        }
        Pool { files, paragraphs, circle_paras, max_file }
    }

    pub fn small_files(&self) -> Vec<&(String, String)> {
        self.files.iter().filter(|f| f.1.len() <= self.max_file).collect()
    }
}

fn window(rng: &mut Rng, text: &str, max_lines: usize, max_cols: usize) -> String {
    let lines: Vec<&str> = text.lines().collect();
    if lines.is_empty() {
        return String::new();
    }
    let h = rng.urange(1, max_lines.min(lines.len()));
    let y = rng.usize_below(lines.len() - h + 1);
    let x = if rng.chance(1, 2) { 0 } else { rng.usize_below(40) };
    let w = rng.urange(4, max_cols);
    let mut out = String::new();
    for l in &lines[y..y + h] {
        let s: String = l.chars().skip(x).take(w).collect();
        out.push_str(s.trim_end());
        out.push('\n');
    }
    out
}

fn grid(rng: &mut Rng, alphabet: &[&str]) -> String {
    let w = rng.urange(1, 40);
    let h = rng.urange(1, 12);
    let density = *rng.pick(&[5u64, 15, 30, 60, 90]);
    let mut out = String::new();
    for _ in 0..h {
        let mut line = String::new();
        for _ in 0..w {
            if rng.below(100) < density {
                line.push_str(*rng.pick(alphabet));
            } else {
                line.push(' ');
            }
        }
        out.push_str(line.trim_end());
        out.push('\n');
    }
    out
}

fn text_snippet(rng: &mut Rng) -> String {
    let mut out = String::new();
    let lines = rng.urange(1, 5);
    for _ in 0..lines {
        let indent = rng.usize_below(6);
        out.push_str(&" ".repeat(indent));
        let quoted = rng.chance(1, 2);
        if quoted {
            out.push('"');
        }
        for k in 0..rng.urange(1, 5) {
            if k > 0 {
                out.push(' ');
            }
            out.push_str(*rng.pick(WORDS));
        }
        if quoted && rng.chance(4, 5) {
            out.push('"');
        }
        if rng.chance(1, 3) {
            out.push_str("  +--+ ");
        }
        out.push('\n');
    }
    out
}

fn legend_snippet(rng: &mut Rng, pool: &Pool) -> String {
    let mut out = String::new();
    // a small common vocabulary plus a large space of one-off names (caches and
    // interners keyed on tag text only show their limits with many distinct names)
    let wide = rng.chance(1, 2);
    let numbered: Vec<String> = (0..5).map(|_| format!("t{}", rng.below(240))).collect();
    let base = ["a", "b", "c", "big", "x1"];
    let tags: Vec<&str> = if wide { numbered.iter().map(|s| s.as_str()).collect() } else { base.to_vec() };
    let n = rng.urange(1, 3);
    for i in 0..n {
        let t = tags[(i + rng.usize_below(2)) % tags.len()];
        // one tag, or a list `{a,b}` (several classes on one shape)
        let inner = if rng.chance(1, 4) {
            let t2 = tags[(i + 2) % tags.len()];
            format!("{{{},{}}}", t, t2)
        } else {
            format!("{{{}}}", t)
        };
        // shapes sized to the tag text so that they are really recognised
        let w = inner.chars().count() + 2;
        match rng.below(4) {
            0 => out.push_str(&format!("+{}+\n| {} |\n+{}+\n", "-".repeat(w), inner, "-".repeat(w))),
            1 => out.push_str(&format!(".{}.\n| {} |\n'{}'\n", "-".repeat(w), inner, "-".repeat(w))),
            2 => out.push_str(&format!("+{}+\n|{}|\n| {} |\n+{}+\n", "-".repeat(w), " ".repeat(w), inner, "-".repeat(w))),
            _ => {
                // the circle drawings of the test data, with the tag inside
                if t.len() == 1 {
                    out.push_str(&format!("   _\n .' '.\n( {{{}}} )\n `._.'\n", t));
                } else {
                    out.push_str(&format!("/{}\\\n| {} |\n\\{}/\n", "-".repeat(w), inner, "-".repeat(w)));
                }
            }
        }
        out.push('\n');
    }
    if rng.chance(1, 3) {
        out.push_str(rng.pick(&pool.paragraphs).as_str());
        out.push('\n');
    }
    if rng.chance(9, 10) {
        out.push_str(if rng.chance(4, 5) { "# Legend:\n" } else { "#Legend: \n" });
        for t in tags.iter().take(rng.urange(1, 4)) {
            out.push_str(&format!("{} = {{{}}}\n", t, rng.pick(LEGEND_STYLES)));
        }
    }
    out
}

fn mutate(rng: &mut Rng, s: &str) -> String {
    let mut lines: Vec<String> = s.lines().map(|l| l.to_string()).collect();
    if lines.is_empty() {
        lines.push(String::new());
    }
    for _ in 0..rng.urange(1, 4) {
        let li = rng.usize_below(lines.len());
        match rng.below(8) {
            0 => {
                // replace one char
                let mut cs: Vec<char> = lines[li].chars().collect();
                if !cs.is_empty() {
                    let i = rng.usize_below(cs.len());
                    cs[i] = rng.pick(ALPHABET).chars().next().unwrap();
                    lines[li] = cs.into_iter().collect();
                }
            }
            1 => {
                // insert a char
                let mut cs: Vec<char> = lines[li].chars().collect();
                let i = rng.usize_below(cs.len() + 1);
                cs.insert(i, rng.pick(ALPHABET).chars().next().unwrap());
                lines[li] = cs.into_iter().collect();
            }
            2 => {
                // delete a char
                let mut cs: Vec<char> = lines[li].chars().collect();
                if !cs.is_empty() {
                    let i = rng.usize_below(cs.len());
                    cs.remove(i);
                    lines[li] = cs.into_iter().collect();
                }
            }
            3 => {
                if lines.len() > 1 {
                    lines.remove(li);
                }
            }
            4 => {
                let l = lines[li].clone();
                lines.insert(li, l);
            }
            5 => {
                let lj = rng.usize_below(lines.len());
                lines.swap(li, lj);
            }
            6 => {
                // indent everything
                let n = rng.urange(1, 5);
                for l in lines.iter_mut() {
                    *l = format!("{}{}", " ".repeat(n), l);
                }
            }
            _ => {
                lines[li].push_str(*rng.pick(&["  ", "\t", " \\", " ->", "-", "|", "\r"]));
            }
        }
    }
    let mut out = lines.join("\n");
    if rng.chance(3, 4) {
        out.push('\n');
    }
    out
}

const TINY: &[&str] = &[
    "", "\n", " ", "-", "|", "+", "o", "*", "->", "<-", "--", "||", "+-+\n| |\n+-+", "()", "(.)", "\"\"", "\"", "{", "}",
    "{a}", "# Legend:\n", "# Legend:\na = {fill:red}\n", "\\", "/\\\n\\/", "a", "é", "文", "\t-", "-\r\n-", ".-.\n'-'",
];

/// Draw one diagram text.
pub fn gen_input(rng: &mut Rng, pool: &Pool, mask: GenMask) -> (String, &'static str) {
    // choose a generator among the enabled ones
    let weights: [u32; 10] = [3, 22, 12, 18, 12, 8, 7, 6, 0, 4];
    let mut w = [0u32; 10];
    for i in 0..10 {
        if mask.0 & (1 << i) != 0 {
            w[i] = weights[i];
        }
    }
    if w.iter().all(|x| *x == 0) {
        w[1] = 1;
    }
    let g = rng.weighted(&w);
    let mut s = match g {
        0 => {
            let small = pool.small_files();
            if small.is_empty() {
                rng.pick(&pool.paragraphs).clone()
            } else {
                rng.pick(&small).1.clone()
            }
        }
        1 => {
            let mut t = rng.pick(&pool.paragraphs).clone();
            if rng.chance(1, 5) {
                t.push('\n');
                t.push_str(rng.pick(&pool.paragraphs).as_str());
            }
            t
        }
        2 => {
            let f = rng.pick(&pool.files);
            window(rng, &f.1, 14, 70)
        }
        3 => {
            if rng.chance(1, 2) {
                grid(rng, LINE_CHARS)
            } else {
                grid(rng, ALPHABET)
            }
        }
        4 => {
            let mut t = rng.pick(&pool.circle_paras).clone();
            if rng.chance(1, 3) {
                t = window(rng, &t, 12, 60);
            }
            t
        }
        5 => {
            if rng.chance(1, 2) {
                grid(rng, UNICODE_CHARS)
            } else {
                random_unicode(rng)
            }
        }
        6 => text_snippet(rng),
        7 => legend_snippet(rng, pool),
        _ => rng.pick(TINY).to_string(),
    };
    let mut name = GEN_NAMES[g];
    if mask.0 & G_MUTATE != 0 && rng.chance(1, 4) {
        s = mutate(rng, &s);
        name = "mutation";
    }
    // encodings of the same drawing that text tools produce
    match rng.below(40) {
        0 => s = s.replace('\n', "\r\n"),
        1 => s = format!("\u{feff}{}", s),
        2 => s = s.replace("  ", "\t"),
        3 => {
            while s.ends_with('\n') {
                s.pop();
            }
        }
        4 => s.push_str("\n\n  \n"),
        _ => {}
    }
    (s, name)
}

/// Hostile markup bodies for the server / CLI (they are still just text).
pub const HOSTILE: &[&str] = &[
    "<script>alert(1)</script>",
    "</svg><svg onload=alert(1)>",
    "\"><img src=x onerror=alert(1)>",
    "&lt;&amp;&#x41;",
    "]]><![CDATA[",
    "<!-- -->",
    "{\"json\": true}",
    "%00%ff\\u0000",
    "GET / HTTP/1.1\r\nHost: x\r\n\r\n",
    "0\r\n\r\n",
];

/// A text that a too-coarse cache key would confuse with `base`.
pub fn sibling(rng: &mut Rng, base: &str) -> String {
    let mut lines: Vec<String> = base.split('\n').map(|s| s.to_string()).collect();
    let drawing = ['-', '|', '+', '*', 'o', '/', '\\', '.', '\'', '#', 'x', ' '];
    match rng.below(9) {
        0 | 1 => {
            // same length, one character changed
            let mut cs: Vec<char> = base.chars().collect();
            let idxs: Vec<usize> = cs.iter().enumerate().filter(|(_, c)| **c != '\n').map(|(i, _)| i).collect();
            if !idxs.is_empty() {
                let i = *rng.pick(&idxs);
                let mut c = *rng.pick(&drawing);
                if c == cs[i] {
                    c = if cs[i] == '-' { '|' } else { '-' };
                }
                cs[i] = c;
            }
            cs.into_iter().collect()
        }
        2 => {
            // same first line(s), different tail
            let keep = (lines.len() / 2).max(1);
            lines.truncate(keep);
            lines.push("  +--+  o-->".to_string());
            lines.join("\n")
        }
        3 => {
            // different first line, same tail
            if !lines.is_empty() {
                lines[0] = format!("*{}", lines[0]);
            }
            lines.join("\n")
        }
        4 => format!("\n{}", base),     // leading blank line
        5 => format!(" {}", base),      // first line indented
        6 => format!("{}\n\n", base.trim_end()), // trailing whitespace
        7 => base.trim().to_string(),
        _ => {
            // two lines swapped (same multiset of lines, same length)
            if lines.len() >= 2 {
                let i = rng.usize_below(lines.len());
                let j = rng.usize_below(lines.len());
                lines.swap(i, j);
            }
            lines.join("\n")
        }
    }
}


/// Pad a text with blank lines so that it is exactly `size` bytes long (if it is
/// shorter): inputs sitting on buffer boundaries (8 KiB, 64 KiB ...).
pub fn pad_to(text: &str, size: usize) -> String {
    let mut s = text.to_string();
    if !s.ends_with('\n') {
        s.push('\n');
    }
    while s.len() + 41 <= size {
        s.push_str("                                        \n");
    }
    while s.len() < size {
        s.push(' ');
    }
    s
}

/// Lines mixing drawing characters with random narrow and wide non-ASCII
/// characters from several scripts (per-character tables and caches).
pub fn random_unicode(rng: &mut Rng) -> String {
    const NARROW: &[(u32, u32)] = &[(0xA1, 0xFF), (0x391, 0x3C9), (0x410, 0x44F), (0x2500, 0x257F), (0x2190, 0x21FF), (0x100, 0x17F)];
    const WIDE: &[(u32, u32)] = &[(0x4E00, 0x9FFF), (0x3041, 0x3096), (0xAC00, 0xD7A3), (0xFF01, 0xFF5E), (0x30A1, 0x30FA)];
    let mut out = String::new();
    for _ in 0..rng.urange(1, 6) {
        let mut line = String::new();
        for _ in 0..rng.urange(2, 30) {
            match rng.below(10) {
                0..=2 => line.push(' '),
                3..=4 => line.push_str(*rng.pick(LINE_CHARS)),
                5..=7 => {
                    let (lo, hi) = *rng.pick(NARROW);
                    if let Some(c) = char::from_u32(rng.range(lo as u64, hi as u64) as u32) {
                        line.push(c);
                    }
                }
                _ => {
                    let (lo, hi) = *rng.pick(WIDE);
                    if let Some(c) = char::from_u32(rng.range(lo as u64, hi as u64) as u32) {
                        line.push(c);
                    }
                }
            }
        }
        out.push_str(line.trim_end());
        out.push('\n');
    }
    out
}

/// A large sparse grid: many isolated marks, i.e. many separate spans and
/// fragments (size-dependent code paths: batching, parallel splits, caches).
pub fn sparse_grid(rng: &mut Rng, w: usize, h: usize, density_percent: u64) -> String {
    let mut out = String::new();
    for _ in 0..h {
        let mut line = String::new();
        for _ in 0..w {
            if rng.below(100) < density_percent {
                line.push_str(*rng.pick(LINE_CHARS));
            } else {
                line.push(' ');
            }
        }
        out.push_str(line.trim_end());
        out.push('\n');
    }
    out
}

/// The first `max_bytes` (cut at a line end) of the largest test-data files.
pub fn big_windows(pool: &Pool, max_bytes: usize) -> Vec<String> {
    let mut v = vec![];
    for (_, t) in pool.files.iter().filter(|f| f.1.len() > pool.max_file) {
        let mut cut = 0;
        for (i, b) in t.bytes().enumerate() {
            if i >= max_bytes {
                break;
            }
            if b == b'\n' {
                cut = i + 1;
            }
        }
        if cut > 1000 {
            v.push(t[..cut].to_string());
        }
    }
    v
}
