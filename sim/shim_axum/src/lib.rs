//! `axum` as seen by svgbob_server in the simulation build.
pub use real_axum::*;

/// `axum::Server` (= `hyper::Server`) with `bind` redirected to the simulator.
/// The returned builder is hyper's own, so `.serve(app.into_make_service())`
/// runs hyper's real accept loop, HTTP/1 state machine and axum's router.
pub struct Server;

impl Server {
    pub fn bind(addr: &std::net::SocketAddr) -> hyper::server::Builder<svgbob_verif_srvsim::net::SimIncoming> {
        let incoming = svgbob_verif_srvsim::install(*addr);
        hyper::Server::builder(incoming)
    }
}
