//! Leg M of C07. Run as
//!   MIRIFLAGS="-Zmiri-seed=<n> -Zmiri-preemption-rate=<p> ..." cargo +nightly miri run -p c07m -- <threads> <variant>
//! T threads race on the very first (table-initialising) conversions; then the
//! same conversions are repeated warm. All observations of one input must be
//! byte-identical. Miri itself reports data races / UB as errors (exit != 0).

use std::sync::{Arc, Barrier, Mutex};

const INPUTS: &[&str] = &[
    "+--+\n|  |\n+--+\n",
    " .-.\n(   )\n '-'\n",
    "*-->o\n \"txt\" ┌─┐\n",
    "a = {fill:red}\n",
];

fn main() {
    let args: Vec<String> = std::env::args().collect();
    let threads: usize = args.get(1).and_then(|s| s.parse().ok()).unwrap_or(3);
    let variant: usize = args.get(2).and_then(|s| s.parse().ok()).unwrap_or(0);
    let results: Arc<Mutex<Vec<(usize, String)>>> = Arc::new(Mutex::new(vec![]));
    let barrier = Arc::new(Barrier::new(threads));
    let mut hs = vec![];
    for t in 0..threads {
        let results = results.clone();
        let barrier = barrier.clone();
        hs.push(std::thread::spawn(move || {
            barrier.wait();
            // every thread starts with a different input and then converts the
            // one its neighbour started with
            for k in 0..2 {
                let i = (t + k + variant) % INPUTS.len();
                let out = match (t + k) % 3 {
                    0 => svgbob::to_svg(INPUTS[i]),
                    1 => svgbob::to_svg_string_pretty(INPUTS[i]),
                    _ => svgbob::to_svg_with_settings(INPUTS[i], &svgbob::Settings::default()),
                };
                results.lock().unwrap().push((i, out));
            }
        }));
    }
    for h in hs {
        h.join().expect("caller thread panicked");
    }
    // warm repetition on the main thread
    let mut all = results.lock().unwrap().clone();
    for i in 0..INPUTS.len() {
        all.push((i, svgbob::to_svg(INPUTS[i])));
    }
    let mut first: Vec<Option<String>> = vec![None; INPUTS.len()];
    let mut bad = 0;
    for (i, out) in all.iter() {
        match &first[*i] {
            None => first[*i] = Some(out.clone()),
            Some(f) => {
                if f != out {
                    bad += 1;
                    eprintln!("MISMATCH input {}: {} vs {} bytes", i, f.len(), out.len());
                }
            }
        }
    }
    println!("c07m threads={} variant={} observations={} mismatches={}", threads, variant, all.len(), bad);
    if bad > 0 {
        std::process::exit(1);
    }
}
