#!/bin/bash
# Confirm a seeded change independently, in a scratch worktree of /repo:
#   builds, pinned tests pass, demo FAILS with the patch, demo PASSES without.
# usage: tools/confirm_seed.sh <seed-dir> <scratch-worktree>
# prints one line: <id> apply=ok build=ok tests=110/0 demo_with=FAIL demo_without=PASS
set -u
seed=$(readlink -f "$1"); wt=$2; id=$(basename "$seed")
export CARGO_NET_OFFLINE=true
cd "$wt" || exit 2
git checkout -q -- . ; git clean -fdq -e target
res="$id"
if git apply "$seed/patch.diff" 2>/dev/null; then res="$res apply=ok"; else echo "$res apply=FAILED"; exit 0; fi
if cargo build --workspace --offline -q 2>/tmp/confirm-$id.build; then res="$res build=ok"; else res="$res build=FAILED"; fi
t=$(cargo test --workspace --no-fail-fast --offline 2>&1 | grep "^test result" | awk '{p+=$4; f+=$6} END {print p"/"f}')
res="$res tests=$t"
cp -r "$seed/demo" ./verif_demo
if bash ./verif_demo/run.sh >/tmp/confirm-$id.with 2>&1; then res="$res demo_with=PASS(!)"; else res="$res demo_with=FAIL"; fi
git checkout -q -- . ; git clean -fdq -e target -e verif_demo
if bash ./verif_demo/run.sh >/tmp/confirm-$id.without 2>&1; then res="$res demo_without=PASS"; else res="$res demo_without=FAIL(!)"; fi
rm -rf ./verif_demo; git checkout -q -- . ; git clean -fdq -e target
echo "$res"
