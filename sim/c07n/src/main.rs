//! C07 coordinator and native leg.
//!
//!   c07n --tier quick|thorough        run legs S, N (and M in thorough), write evidence/C07.json
//!   c07n --worker --seed S --batch B --size N [--fresh]   native episode (leg N)
//!   c07n --worker --episode-file F --episode K            explicit native episode
//!   c07n --replay FILE                re-execute a replay file (spawns the leg's worker)
//!
//! Leg N runs the shipped code (real once_cell statics, std HashMap) with hash
//! keys chosen by the simulator; one process = one episode = one history.

#[path = "../../c07/src/core.rs"]
mod core;
mod miri;

use crate::core::*;
use simcommon::evidence::Evidence;
use simcommon::gen::Pool;
use simcommon::{findings, json, Digest, Value};
use std::collections::{BTreeMap, BTreeSet, HashMap};
use std::io::Write;
use std::process::{Command, Stdio};
use std::sync::atomic::AtomicBool;
use std::sync::{Arc, Mutex};
use std::time::{Duration, Instant};

const PROPERTY: &str = "C07";

fn arg(args: &[String], name: &str) -> Option<String> {
    args.iter().position(|a| a == name).and_then(|i| args.get(i + 1).cloned())
}

fn target_dir() -> String {
    std::env::var("VERIF_TARGET").unwrap_or_else(|_| "/verif/target".into())
}

// ------------------------------------------------------------------ leg N worker

fn native_worker(args: &[String]) {
    install_quiet_panic_hook();
    install_host_logger(arg(args, "--host-log").and_then(|s| s.parse().ok()).unwrap_or(0));
    let seed: u64 = arg(args, "--seed").and_then(|s| s.parse().ok()).unwrap_or(simcommon::DEFAULT_SEED);
    let runs: Vec<RunDesc> = if let Some(f) = arg(args, "--episode-file") {
        let k: usize = arg(args, "--episode").and_then(|s| s.parse().ok()).unwrap_or(0);
        load_episode(&f, k)
    } else {
        let batch: u64 = arg(args, "--batch").and_then(|s| s.parse().ok()).unwrap_or(0);
        let size: u64 = arg(args, "--size").and_then(|s| s.parse().ok()).unwrap_or(100);
        let pool = Pool::load(&simcommon::repo_dir(), 6000);
        let mut g = BatchGen { profile: episode_profile(batch), pool: &pool, memory: vec![], canaries: canaries(seed, &pool) };
        (0..size).map(|i| g.gen_run(seed, batch * size + i, 1)).collect()
    };
    // odd episodes run on ONE long-lived OS thread (thread-local state accumulates
    // over the whole history); even ones use a fresh OS thread per run (fresh
    // SipHash keys per run)
    let one_thread = arg(args, "--one-thread").is_some();
    if one_thread {
        let args2: Vec<String> = args.iter().filter(|a| *a != "--one-thread").cloned().collect();
        let runs2 = runs.clone();
        let h = std::thread::Builder::new().stack_size(64 << 20).spawn(move || native_episode(runs2, true)).expect("spawn");
        let _ = args2;
        if h.join().is_err() {
            simcommon::harness_error("episode thread died");
        }
        return;
    }
    native_episode(runs, false);
}

fn native_episode(runs: Vec<RunDesc>, inline: bool) {
    // with thread-creation faults active a conversion may legitimately fail
    // (panic); what it may not do is return different bytes
    let thread_faults_active = thread_faults().is_some() && std::env::var("VERIF_THR_PERIOD").is_ok();
    let oracle = Arc::new(Mutex::new(Oracle::new()));
    let out = std::io::stdout();
    let mut reported = 0usize;
    let mut canaries_seen = BTreeSet::new();
    let mut nontrivial = BTreeSet::new();
    let mut entry_use = [0u64; 5];
    let mut ops_total = 0u64;
    for run in runs {
        let run = Arc::new(run);
        let before = oracle.lock().unwrap().comparisons;
        let r2 = run.clone();
        let o2 = oracle.clone();
        // fresh OS thread => fresh SipHash keys drawn from the simulator's stream
        let body = move || {
                set_hash_seed(r2.hash_seed);
                let canary = hash_order_canary();
                let mut pos = 0u32;
                for op in r2.warmup.iter() {
                    let out = convert(&r2, op);
                    if thread_faults_active && out.is_panic() {
                        continue;
                    }
                    o2.lock().unwrap().observe(op_key(&r2, op), op.entry, Where { run: r2.idx, thread: -1, pos }, out);
                    pos += 1;
                }
                for (t, ops) in r2.threads.iter().enumerate() {
                    for (i, op) in ops.iter().enumerate() {
                        let out = convert(&r2, op);
                        if thread_faults_active && out.is_panic() {
                            continue;
                        }
                        o2.lock().unwrap().observe(op_key(&r2, op), op.entry, Where { run: r2.idx, thread: t as i32, pos: i as u32 }, out);
                    }
                }
                canary
            };
        let joined: std::thread::Result<u64> = if inline {
            Ok(body())
        } else {
            std::thread::Builder::new().stack_size(64 << 20).spawn(body).expect("spawn").join()
        };
        match joined {
            Ok(c) => {
                canaries_seen.insert(c);
            }
            Err(_) => {
                let _ = writeln!(out.lock(), "{}", json!({"t":"violation","class":"execution-aborted","detail":"run thread died","run":run.to_json()}));
            }
        }
        for op in run.warmup.iter().chain(run.threads.iter().flatten()) {
            entry_use[op.entry as usize] += 1;
            ops_total += 1;
        }
        let orc = oracle.lock().unwrap();
        if orc.comparisons > before {
            let mut wd = Digest::new();
            wd.str(&run.to_json().to_string());
            nontrivial.insert(wd.short());
        }
        for m in orc.mismatches[reported..].iter().take(3) {
            let _ = writeln!(
                out.lock(),
                "{}",
                json!({"t":"violation","class":m.kind,"entry":ENTRY_NAMES[m.entry as usize],"key":m.key.hex(),
                    "first":{"run":m.first.run,"thread":m.first.thread,"pos":m.first.pos},
                    "second":{"run":m.second.run,"thread":m.second.thread,"pos":m.second.pos},
                    "detail":m.detail,"run":run.to_json()})
            );
        }
        reported = orc.mismatches.len();
    }
    let orc = oracle.lock().unwrap();
    let mut o = out.lock();
    for (k, (w, outc)) in orc.first.iter() {
        let _ = writeln!(o, "{}", json!({"t":"obs","k":k.hex(),"o":outc.digest().hex(),"p":outc.is_panic(),"run":w.run}));
    }
    let _ = writeln!(
        o,
        "{}",
        json!({"t":"stats","leg":"N","ops":ops_total,"keys":orc.first.len(),"comparisons":orc.comparisons,
            "comparisons_cross_thread":0,"comparisons_cross_run":orc.comparisons_cross_run,
            "panics":orc.panics,"mismatches":orc.mismatches.len(),
            "hash_canaries":canaries_seen.iter().map(|c| format!("{:x}",c)).collect::<Vec<_>>(),
            "nontrivial":nontrivial.iter().map(|c| format!("{:x}",c)).collect::<Vec<_>>(),
            "entry_use":entry_use,
            "thread_create_failures": thread_faults().map(|t| t.fired()).unwrap_or(0),
            "clock_jumps": thread_faults().map(|t| t.clock_jumps()).unwrap_or(0),
            "getrandom_calls":GETRANDOM_CALLS.load(std::sync::atomic::Ordering::Relaxed)})
    );
}

fn load_episode(f: &str, k: usize) -> Vec<RunDesc> {
    let txt = std::fs::read_to_string(f).unwrap_or_else(|e| simcommon::harness_error(&format!("{}: {}", f, e)));
    let v: Value = simcommon::serde_json::from_str(&txt).unwrap_or_else(|e| simcommon::harness_error(&format!("{}: {}", f, e)));
    v.get("episodes")
        .and_then(|e| e.as_array())
        .and_then(|e| e.get(k))
        .and_then(|e| e.get("runs"))
        .and_then(|r| r.as_array())
        .map(|r| r.iter().map(RunDesc::from_json).collect())
        .unwrap_or_default()
}

// ------------------------------------------------------------------ coordinator

#[derive(Clone, Debug)]
struct Job {
    leg: char, // 'S' | 'N' | 'F' (fresh: native, one run per process)
    batch: u64,
    size: u64,
}

#[derive(Default, Clone)]
struct JobResult {
    lines: Vec<Value>,
    raw_digest: Option<Digest>,
    status_ok: bool,
    stderr: String,
    wall: f64,
}

/// Ambient conditions of a worker process, a function of the episode number:
/// how many CPUs it may use (`available_parallelism`), a few environment
/// variables, and (leg N) whether the whole history runs on one OS thread.
fn ambient(batch: u64) -> (usize, usize, bool) {
    let cpus = [0usize, 1, 0, 2, 0, 4, 0, 3, 0, 8][(batch % 10) as usize]; // 0 = all
    let env_variant = (batch % 3) as usize;
    let one_thread = batch % 2 == 1;
    (cpus, env_variant, one_thread)
}

fn have_taskset() -> bool {
    std::path::Path::new("/usr/bin/taskset").exists() || std::path::Path::new("/bin/taskset").exists()
}

fn worker_cmd_for(leg: char, batch: u64) -> Command {
    let t = target_dir();
    let (cpus, envv, one_thread) = ambient(batch);
    let bin = if leg == 'S' { format!("{}/release/c07s", t) } else { format!("{}/release/c07n", t) };
    let ncpu = std::thread::available_parallelism().map(|n| n.get()).unwrap_or(1);
    let mut c = if cpus > 0 && cpus < ncpu && have_taskset() {
        let start = ((batch as usize) * cpus) % (ncpu - cpus + 1);
        let mut c = Command::new("taskset");
        c.arg("-c").arg(format!("{}-{}", start, start + cpus - 1)).arg(bin);
        c
    } else {
        Command::new(bin)
    };
    c.arg("--host-log").arg((batch / 2).to_string());
    if leg != 'S' {
        c.arg("--worker");
        if one_thread {
            c.arg("--one-thread").arg("1");
        }
    }
    c.env_clear();
    c.env("VERIF_REPO", simcommon::repo_dir());
    c.env("SHUTTLE_SILENCE_WARNINGS", "1");
    c.env("PATH", "/usr/bin:/bin");
    // native episodes 2, 6, 10, ...: thread creation inside conversions fails every other time
    if leg != 'S' && batch % 4 == 2 {
        if let Ok(lib) = std::env::var("VERIF_THREAD_FAULT_LIB") {
            if std::path::Path::new(&lib).exists() {
                c.env("LD_PRELOAD", lib).env("VERIF_THR_PERIOD", if batch % 8 == 2 { "2" } else { "3" });
            }
        }
    }
    // native episodes 0, 4, 8, ...: the clock jumps ahead inside conversions
    if leg != 'S' && batch % 4 == 0 {
        if let Ok(lib) = std::env::var("VERIF_THREAD_FAULT_LIB") {
            if std::path::Path::new(&lib).exists() {
                c.env("LD_PRELOAD", lib).env("VERIF_CLOCK_JUMP_PERIOD", if batch % 8 == 0 { "2" } else { "5" });
            }
        }
    }
    match envv {
        0 => {}
        1 => {
            c.env("LANG", "de_DE.UTF-8").env("LC_ALL", "de_DE.UTF-8").env("TZ", "Asia/Tokyo").env("COLUMNS", "40").env("TERM", "dumb").env("NO_COLOR", "1");
        }
        _ => {
            c.env("LANG", "C").env("TZ", "UTC").env("RUST_LOG", "trace").env("RUST_BACKTRACE", "1").env("HOME", "/nonexistent").env("USER", "nobody").env("COLUMNS", "200");
        }
    }
    c
}



fn run_child(mut cmd: Command, timeout: Duration) -> JobResult {
    let t0 = Instant::now();
    cmd.stdin(Stdio::null()).stdout(Stdio::piped()).stderr(Stdio::piped());
    let mut child = match cmd.spawn() {
        Ok(c) => c,
        Err(e) => simcommon::harness_error(&format!("cannot spawn worker: {}", e)),
    };
    let mut so = child.stdout.take().unwrap();
    let mut se = child.stderr.take().unwrap();
    let ho = std::thread::spawn(move || {
        let mut s = String::new();
        let _ = std::io::Read::read_to_string(&mut so, &mut s);
        s
    });
    let he = std::thread::spawn(move || {
        let mut s = String::new();
        let _ = std::io::Read::read_to_string(&mut se, &mut s);
        s
    });
    let status = loop {
        match child.try_wait() {
            Ok(Some(s)) => break Some(s),
            Ok(None) => {
                if t0.elapsed() > timeout {
                    let _ = child.kill();
                    let _ = child.wait();
                    break None;
                }
                std::thread::sleep(Duration::from_millis(2));
            }
            Err(_) => break None,
        }
    };
    let stdout = ho.join().unwrap_or_default();
    let stderr = he.join().unwrap_or_default();
    let mut lines = vec![];
    let mut d = Digest::new();
    for l in stdout.lines() {
        if let Ok(v) = simcommon::serde_json::from_str::<Value>(l) {
            lines.push(v);
        }
    }
    // digest of everything but the (unordered) obs lines' order: sort first
    let mut sorted: Vec<&str> = stdout.lines().collect();
    sorted.sort();
    for l in sorted {
        d.str(l);
    }
    JobResult {
        lines,
        raw_digest: Some(d),
        status_ok: status.map(|s| s.success()).unwrap_or(false),
        stderr: if status.is_none() { format!("TIMEOUT after {:?}\n{}", timeout, stderr) } else { stderr },
        wall: t0.elapsed().as_secs_f64(),
    }
}

fn run_job(seed: u64, job: &Job) -> JobResult {
    let mut c = worker_cmd_for(job.leg, job.batch);
    c.arg("--seed").arg(seed.to_string()).arg("--batch").arg(job.batch.to_string()).arg("--size").arg(job.size.to_string());
    run_child(c, Duration::from_secs(600))
}

fn run_episode_file(leg: char, amb: u64, file: &str, k: usize) -> JobResult {
    let mut c = worker_cmd_for(leg, amb);
    c.arg("--episode-file").arg(file).arg("--episode").arg(k.to_string());
    run_child(c, Duration::from_secs(600))
}

/// Regenerate the explicit description of batch `batch` of leg `leg`.
fn regen_batch(seed: u64, leg: char, batch: u64, size: u64, pool: &Pool) -> Vec<RunDesc> {
    let mut g = BatchGen { profile: episode_profile(batch), pool, memory: vec![], canaries: canaries(seed, pool) };
    let mt = if leg == 'S' { 16 } else { 1 };
    (0..size).map(|i| g.gen_run(seed, batch * size + i, mt)).collect()
}

#[derive(Clone)]
struct Episode {
    leg: char,
    /// episode number the ambient conditions (CPUs, environment, thread policy) derive from
    amb: u64,
    runs: Vec<RunDesc>,
}

fn replay_json(seed: u64, class: &str, detail: &str, episodes: &[Episode], extra: Value) -> Value {
    json!({
        "property": PROPERTY,
        "seed": seed.to_string(),
        "violation": {"class": class, "detail": detail},
        "info": extra,
        "episodes": episodes.iter().map(|e| json!({"leg": e.leg.to_string(), "ambient": e.amb, "ambient_note": "episode number that selects CPU allowance / environment / thread policy, see ambient() in sim/c07n", "runs": e.runs.iter().map(|r| r.to_json()).collect::<Vec<_>>()})).collect::<Vec<_>>(),
    })
}

/// Execute a replay description: every episode in a fresh process of its leg;
/// the oracle is the union: violations inside an episode, or a key whose
/// outcome differs between episodes.
fn execute_replay(path: &str) -> (Vec<String>, Vec<JobResult>) {
    let txt = std::fs::read_to_string(path).unwrap_or_else(|e| simcommon::harness_error(&format!("{}: {}", path, e)));
    let v: Value = simcommon::serde_json::from_str(&txt).unwrap_or_else(|e| simcommon::harness_error(&format!("{}: {}", path, e)));
    let eps = v.get("episodes").and_then(|e| e.as_array()).cloned().unwrap_or_default();
    let mut found = vec![];
    let mut seen: HashMap<String, (String, usize)> = HashMap::new();
    let mut results = vec![];
    for (k, e) in eps.iter().enumerate() {
        let leg = e.get("leg").and_then(|l| l.as_str()).and_then(|s| s.chars().next()).unwrap_or('N');
        let amb = e.get("ambient").and_then(|a| a.as_u64()).unwrap_or(0);
        let r = run_episode_file(if leg == 'F' { 'N' } else { leg }, amb, path, k);
        if !r.status_ok {
            found.push(format!("worker-died: {}", simcommon::preview(&r.stderr, 300)));
        }
        for l in &r.lines {
            match l.get("t").and_then(|t| t.as_str()) {
                Some("violation") => found.push(format!(
                    "{}: {}",
                    l.get("class").and_then(|c| c.as_str()).unwrap_or("?"),
                    l.get("detail").and_then(|c| c.as_str()).unwrap_or("")
                )),
                Some("obs") => {
                    let key = l.get("k").and_then(|x| x.as_str()).unwrap_or("").to_string();
                    let o = l.get("o").and_then(|x| x.as_str()).unwrap_or("").to_string();
                    if let Some((o0, k0)) = seen.get(&key) {
                        if *o0 != o {
                            found.push(format!("cross-process: key {} differs between episode {} and episode {}", &key[..16], k0, k));
                        }
                    } else {
                        seen.insert(key, (o, k));
                    }
                }
                _ => {}
            }
        }
        results.push(r);
    }
    (found, results)
}

fn class_of(found: &str) -> &str {
    found.split(':').next().unwrap_or("")
}

fn write_replay_file(name: &str, v: &Value) -> String {
    let dir = format!("{}/replays/{}", simcommon::verif_dir(), PROPERTY);
    let _ = std::fs::create_dir_all(&dir);
    let path = format!("{}/{}.json", dir, name);
    std::fs::write(&path, simcommon::serde_json::to_string_pretty(v).unwrap() + "\n").unwrap();
    path
}

// Does this candidate still show a violation of the wanted class?
thread_local! {
    /// wall-clock budget of the minimisation in progress
    static SHRINK_DEADLINE: std::cell::Cell<Option<Instant>> = const { std::cell::Cell::new(None) };
}

fn still_fails(seed: u64, class: &str, eps: &[Episode], tries: &mut u32) -> bool {
    if let Some(d) = SHRINK_DEADLINE.with(|c| c.get()) {
        if Instant::now() > d {
            *tries = u32::MAX / 2; // out of time: every loop of the minimiser stops
            return false;
        }
    }
    *tries += 1;
    let v = replay_json(seed, class, "", eps, json!({}));
    let p = write_replay_file(&format!("tmp-shrink-{}", std::process::id()), &v);
    let (found, _) = execute_replay(&p);
    let _ = std::fs::remove_file(&p);
    found.iter().any(|f| class_compatible(class_of(f), class))
}

fn class_compatible(got: &str, want: &str) -> bool {
    got == want || (matches!(want, "output" | "panic-sometimes" | "cross-process") && matches!(got, "output" | "panic-sometimes" | "cross-process"))
}

/// Structural minimisation of a failing replay description.
fn minimise(seed: u64, class: &str, mut eps: Vec<Episode>, involved_runs: &[u64]) -> Vec<Episode> {
    let mut tries = 0u32;
    let limit = 120u32;
    // 1. histories: only the runs named by the violation, then only the last one
    for keep_only_last in [false, true] {
        let cand: Vec<Episode> = eps
            .iter()
            .map(|e| {
                let mut runs: Vec<RunDesc> = e.runs.iter().filter(|r| involved_runs.contains(&r.idx)).cloned().collect();
                if keep_only_last && runs.len() > 1 {
                    runs = vec![runs.last().unwrap().clone()];
                }
                Episode { leg: e.leg, amb: e.amb, runs }
            })
            .collect();
        if cand.iter().all(|e| !e.runs.is_empty()) && cand.iter().map(|e| e.runs.len()).sum::<usize>() < eps.iter().map(|e| e.runs.len()).sum::<usize>() && still_fails(seed, class, &cand, &mut tries) {
            eps = cand;
        }
    }
    // 2. halve long histories
    loop {
        let mut improved = false;
        for ei in 0..eps.len() {
            let n = eps[ei].runs.len();
            if n <= 2 || tries >= limit {
                continue;
            }
            let half = n / 2;
            for range in [0..half, half..n - 1] {
                let mut cand = eps.clone();
                let keep: Vec<RunDesc> = cand[ei].runs.iter().enumerate().filter(|(i, _)| !range.contains(i)).map(|(_, r)| r.clone()).collect();
                cand[ei].runs = keep;
                if still_fails(seed, class, &cand, &mut tries) {
                    eps = cand;
                    improved = true;
                    break;
                }
            }
        }
        if !improved || tries >= limit {
            break;
        }
    }
    // 3. inside runs: drop threads, then operations. A structural change
    // invalidates a recorded schedule, so the candidate is retried under fresh
    // schedule seeds.
    let retry_with_seeds = |cand: &mut Vec<Episode>, ei: usize, ri: usize, tries: &mut u32| -> bool {
        let is_s = cand[ei].leg == 'S';
        cand[ei].runs[ri].schedule = None;
        let base = cand[ei].runs[ri].sched_seed;
        let n = if is_s { 12 } else { 1 };
        for k in 0..n {
            cand[ei].runs[ri].sched_seed = base.wrapping_add(k * 0x9E37);
            if still_fails(seed, class, cand, tries) {
                return true;
            }
            if *tries >= limit {
                return false;
            }
        }
        false
    };
    for ei in 0..eps.len() {
        for ri in 0..eps[ei].runs.len() {
            // threads
            let mut t = 0;
            while t < eps[ei].runs[ri].threads.len() && tries < limit {
                if eps[ei].runs[ri].threads.len() <= 1 {
                    break;
                }
                let mut cand = eps.clone();
                cand[ei].runs[ri].threads.remove(t);
                if retry_with_seeds(&mut cand, ei, ri, &mut tries) {
                    eps = cand;
                } else {
                    t += 1;
                }
            }
            // operations
            for t in 0..eps[ei].runs[ri].threads.len() {
                let mut i = 0;
                while i < eps[ei].runs[ri].threads[t].len() && tries < limit {
                    if eps[ei].runs[ri].threads[t].len() <= 1 {
                        break;
                    }
                    let mut cand = eps.clone();
                    cand[ei].runs[ri].threads[t].remove(i);
                    if retry_with_seeds(&mut cand, ei, ri, &mut tries) {
                        eps = cand;
                    } else {
                        i += 1;
                    }
                }
            }
            if !eps[ei].runs[ri].warmup.is_empty() && tries < limit {
                let mut cand = eps.clone();
                cand[ei].runs[ri].warmup.clear();
                if retry_with_seeds(&mut cand, ei, ri, &mut tries) {
                    eps = cand;
                }
            }
        }
    }
    // 4. shorten texts line-wise (all uses of a text change together)
    for ei in 0..eps.len() {
        for ri in 0..eps[ei].runs.len() {
            for ti in 0..eps[ei].runs[ri].texts.len() {
                loop {
                    if tries >= limit {
                        break;
                    }
                    let cur = eps[ei].runs[ri].texts[ti].clone();
                    let lines: Vec<&str> = cur.split_inclusive('\n').collect();
                    if lines.len() < 2 {
                        break;
                    }
                    let h = lines.len() / 2;
                    let mut ok = false;
                    for part in [lines[..h].concat(), lines[h..].concat()] {
                        let mut cand = eps.clone();
                        // the same text may occur in several runs/episodes: replace everywhere
                        for e in cand.iter_mut() {
                            for r in e.runs.iter_mut() {
                                for t in r.texts.iter_mut() {
                                    if *t == cur {
                                        *t = part.clone();
                                    }
                                }
                            }
                        }
                        if still_fails(seed, class, &cand, &mut tries) {
                            eps = cand;
                            ok = true;
                            break;
                        }
                    }
                    if !ok {
                        break;
                    }
                }
            }
        }
    }
    eps
}

struct Budget {
    s_batches: u64,
    s_size: u64,
    n_batches: u64,
    n_size: u64,
    fresh: u64,
    selftest: u64,
}

fn budget(tier: &str) -> Budget {
    let scale = std::env::var("VERIF_SCALE").ok().and_then(|s| s.parse::<f64>().ok()).unwrap_or(1.0);
    let b = if tier == "thorough" {
        Budget { s_batches: 1600, s_size: 100, n_batches: 640, n_size: 400, fresh: 2000, selftest: 48 }
    } else {
        Budget { s_batches: 96, s_size: 100, n_batches: 48, n_size: 300, fresh: 160, selftest: 8 }
    };
    Budget {
        s_batches: ((b.s_batches as f64 * scale) as u64).max(2),
        n_batches: ((b.n_batches as f64 * scale) as u64).max(8),
        fresh: ((b.fresh as f64 * scale) as u64).max(8),
        selftest: ((b.selftest as f64 * scale) as u64).max(2),
        ..b
    }
}

fn merge_set(dst: &mut BTreeSet<String>, v: Option<&Value>) {
    if let Some(a) = v.and_then(|x| x.as_array()) {
        for x in a {
            if let Some(s) = x.as_str() {
                dst.insert(s.to_string());
            }
        }
    }
}

fn check(tier: &str) -> i32 {
    let t0 = Instant::now();
    let seed = simcommon::verif_seed();
    let threads = simcommon::par::threads_from_env();
    let b = budget(tier);
    let pool = Arc::new(Pool::load(&simcommon::repo_dir(), 6000));
    eprintln!("[c07] seed={} tier={} workers={}", seed, tier, threads);

    let mut jobs: Vec<Job> = vec![];
    for i in 0..b.s_batches {
        jobs.push(Job { leg: 'S', batch: i, size: b.s_size });
    }
    for i in 0..b.n_batches {
        jobs.push(Job { leg: 'N', batch: i, size: b.n_size });
    }
    for i in 0..b.fresh {
        // a different index space so that fresh runs are not copies of leg N's
        jobs.push(Job { leg: 'F', batch: 1_000_000 + i, size: 1 });
    }
    // interleave legs so that workers stay busy
    let jobs = Arc::new(jobs);
    let stop = Arc::new(AtomicBool::new(false));
    let j2 = jobs.clone();
    let results = simcommon::par::run_indexed(threads, 0, jobs.len() as u64, 1 << 20, stop.clone(), move |_w, i| run_job(seed, &j2[i as usize]));

    // determinism self-test: re-run a sample of episodes with another worker count
    let sample: Vec<usize> = {
        let mut v = vec![];
        let per_leg = b.selftest as usize;
        for leg in ['S', 'N', 'F'] {
            v.extend(jobs.iter().enumerate().filter(|(_, j)| j.leg == leg).take(per_leg).map(|(i, _)| i));
        }
        v
    };
    let j3 = jobs.clone();
    let s2 = sample.clone();
    let again = simcommon::par::run_indexed(3.min(threads), 0, sample.len() as u64, 1 << 20, stop, move |_w, i| run_job(seed, &j3[s2[i as usize]]));
    let mut st_mismatch = vec![];
    for (k, (_, r2)) in again.iter().enumerate() {
        let r1 = &results[sample[k]].1;
        if r1.raw_digest != r2.raw_digest {
            st_mismatch.push(format!("{}{}", jobs[sample[k]].leg, jobs[sample[k]].batch));
        }
    }
    // never a verdict by itself; violations below are each confirmed by re-execution
    let nondeterministic = !st_mismatch.is_empty();
    if nondeterministic {
        eprintln!("[c07] determinism self-test: episodes {:?} differ between two executions", st_mismatch);
    }

    // ---- merge
    let mut global: HashMap<String, (String, usize, u64)> = HashMap::new(); // key -> (outcome, job index, run)
    let mut cross_process_comparisons = 0u64;
    let mut processes_per_key_max = 0u32;
    let mut key_procs: HashMap<String, u32> = HashMap::new();
    struct Raw {
        class: String,
        detail: String,
        job: usize,
        line: Value,
    }
    let mut raws: Vec<Raw> = vec![];
    let mut dead = vec![];
    let mut agg: BTreeMap<String, u64> = BTreeMap::new();
    let mut sets: BTreeMap<&str, BTreeSet<String>> = BTreeMap::new();
    let mut entry_use = [0u64; 5];
    let mut threads_hist: BTreeMap<String, u64> = BTreeMap::new();
    let mut cpu_s = 0.0;
    for (ji, (_, r)) in results.iter().enumerate() {
        cpu_s += r.wall;
        if !r.status_ok {
            dead.push(format!("{}{}: {}", jobs[ji].leg, jobs[ji].batch, simcommon::preview(&r.stderr, 300)));
            continue;
        }
        for l in &r.lines {
            match l.get("t").and_then(|t| t.as_str()) {
                Some("obs") => {
                    let key = l.get("k").and_then(|x| x.as_str()).unwrap_or("").to_string();
                    let o = l.get("o").and_then(|x| x.as_str()).unwrap_or("").to_string();
                    let run = l.get("run").and_then(|x| x.as_u64()).unwrap_or(0);
                    let c = key_procs.entry(key.clone()).or_insert(0);
                    *c += 1;
                    processes_per_key_max = processes_per_key_max.max(*c);
                    match global.get(&key) {
                        Some((o0, j0, r0)) => {
                            cross_process_comparisons += 1;
                            if *o0 != o {
                                raws.push(Raw {
                                    class: "cross-process".into(),
                                    detail: format!("key {} converts differently in process {}{} (run {}) and process {}{} (run {})", &key[..16], jobs[*j0].leg, jobs[*j0].batch, r0, jobs[ji].leg, jobs[ji].batch, run),
                                    job: ji,
                                    line: json!({"other_job": j0, "other_run": r0, "run_idx": run}),
                                });
                            }
                        }
                        None => {
                            global.insert(key, (o, ji, run));
                        }
                    }
                }
                Some("violation") => raws.push(Raw {
                    class: l.get("class").and_then(|c| c.as_str()).unwrap_or("?").to_string(),
                    detail: l.get("detail").and_then(|c| c.as_str()).unwrap_or("").to_string(),
                    job: ji,
                    line: l.clone(),
                }),
                Some("stats") => {
                    let leg = l.get("leg").and_then(|x| x.as_str()).unwrap_or("?").to_string();
                    for k in ["ops", "keys", "comparisons", "comparisons_cross_thread", "comparisons_cross_run", "panics", "steps", "table_accesses", "probe_found_table_being_initialised", "probe_activity_during_foreign_init", "probe_same_key_in_flight", "getrandom_calls", "thread_create_failures", "clock_jumps"] {
                        if let Some(x) = l.get(k).and_then(|x| x.as_u64()) {
                            *agg.entry(format!("{}.{}", leg, k)).or_default() += x;
                        }
                    }
                    merge_set(sets.entry("init_assignments").or_default(), l.get("init_assignments"));
                    merge_set(sets.entry("tables").or_default(), l.get("tables"));
                    merge_set(sets.entry(if leg == "S" { "hash_canaries_S" } else { "hash_canaries_N" }).or_default(), l.get("hash_canaries"));
                    merge_set(sets.entry("interleavings").or_default(), l.get("interleavings"));
                    merge_set(sets.entry(if leg == "S" { "nontrivial_S" } else { "nontrivial_N" }).or_default(), l.get("nontrivial"));
                    if let Some(a) = l.get("entry_use").and_then(|x| x.as_array()) {
                        for (i, x) in a.iter().enumerate().take(5) {
                            entry_use[i] += x.as_u64().unwrap_or(0);
                        }
                    }
                    if let Some(o) = l.get("threads_hist").and_then(|x| x.as_object()) {
                        for (k, v) in o {
                            *threads_hist.entry(k.clone()).or_default() += v.as_u64().unwrap_or(0);
                        }
                    }
                }
                _ => {}
            }
        }
    }
    if let Some(r) = raws.iter().find(|r| r.class == "harness-outside-execution") {
        simcommon::harness_error(&format!("leg S: a shuttle primitive was used outside the simulated execution ({}); the code under test escapes the simulator", simcommon::preview(&r.detail, 200)));
    }
    if !dead.is_empty() {
        simcommon::harness_error(&format!("{} worker process(es) died or timed out: {}", dead.len(), dead[0]));
    }

    // ---- leg M (Miri): thorough tier, or VERIF_MIRI_SEEDS=<n>
    let miri_n: usize = std::env::var("VERIF_MIRI_SEEDS").ok().and_then(|s| s.parse().ok()).unwrap_or(if tier == "thorough" { 16 } else { 0 });
    let mut miri_out: Vec<miri::Outcome> = vec![];
    let mut miri_note = "not run in this tier".to_string();
    if miri_n > 0 {
        if miri::available() {
            eprintln!("[c07] leg M: {} Miri seeds in parallel (about ten minutes each)", miri_n);
            miri_out = miri::run_many(seed, miri_n);
            miri_note = format!("{} seeds", miri_out.len());
        } else {
            miri_note = "cargo +nightly miri is not available: leg M inconclusive".to_string();
        }
    }

    // ---- triage: confirm, minimise, replay; only then report
    let known = findings::load(PROPERTY);
    let mut violation_lines = vec![];
    let mut known_hits: BTreeMap<String, u64> = BTreeMap::new();
    let mut vio_samples = vec![];
    let mut unconfirmed = 0u64;
    let mut seen_classes: BTreeMap<String, u64> = BTreeMap::new();
    for raw in &raws {
        *seen_classes.entry(raw.class.clone()).or_default() += 1;
    }
    let mut handled: BTreeSet<String> = BTreeSet::new();
    for raw in &raws {
        // one replay per (class, leg, entry point)
        let entry = raw.line.get("entry").and_then(|x| x.as_str()).unwrap_or("-").to_string();
        let job = &jobs[raw.job];
        let dedupe = format!("{}|{}|{}", raw.class, job.leg, entry);
        if !handled.insert(dedupe) || violation_lines.len() >= 4 {
            continue;
        }
        let sig = json!({"class": raw.class, "leg": job.leg.to_string(), "entry": entry});
        if let Some(f) = findings::known_match(&known, &sig) {
            *known_hits.entry(f.what.clone()).or_default() += 1;
            continue;
        }
        // build the explicit description
        let leg_gen = if job.leg == 'F' { 'N' } else { job.leg };
        let mut episodes: Vec<Episode> = vec![];
        let mut involved: Vec<u64> = vec![];
        if raw.class == "cross-process" {
            let oj = raw.line.get("other_job").and_then(|x| x.as_u64()).unwrap_or(0) as usize;
            let orun = raw.line.get("other_run").and_then(|x| x.as_u64()).unwrap_or(0);
            let run_idx = raw.line.get("run_idx").and_then(|x| x.as_u64()).unwrap_or(0);
            for (jj, upto) in [(oj, orun), (raw.job, run_idx)] {
                let j = &jobs[jj];
                let lg = if j.leg == 'F' { 'N' } else { j.leg };
                let runs: Vec<RunDesc> = regen_batch(seed, lg, j.batch, j.size, &pool).into_iter().filter(|r| r.idx <= upto).collect();
                episodes.push(Episode { leg: lg, amb: j.batch, runs });
                involved.push(upto);
            }
        } else {
            let failing = raw.line.get("run").map(RunDesc::from_json);
            let second = raw.line.get("second").and_then(|s| s.get("run")).and_then(|x| x.as_u64());
            let first = raw.line.get("first").and_then(|s| s.get("run")).and_then(|x| x.as_u64());
            let last_idx = second.or(failing.as_ref().map(|r| r.idx)).unwrap_or(0);
            let mut runs: Vec<RunDesc> = regen_batch(seed, leg_gen, job.batch, job.size, &pool).into_iter().filter(|r| r.idx <= last_idx).collect();
            if let (Some(f), Some(l)) = (failing, runs.last_mut()) {
                if f.idx == l.idx {
                    *l = f; // carries the recorded schedule
                }
            }
            episodes.push(Episode { leg: leg_gen, amb: job.batch, runs });
            involved.extend(first);
            involved.push(last_idx);
        }
        let mut tries = 0;
        if !still_fails(seed, &raw.class, &episodes, &mut tries) {
            unconfirmed += 1;
            eprintln!("[c07] {} in {}{} did not reproduce from its explicit description", raw.class, job.leg, job.batch);
            continue;
        }
        SHRINK_DEADLINE.with(|c| c.set(Some(Instant::now() + Duration::from_secs(90))));
        let small = minimise(seed, &raw.class, episodes, &involved);
        SHRINK_DEADLINE.with(|c| c.set(None));
        let v = replay_json(seed, &raw.class, &raw.detail, &small, json!({"origin_leg": job.leg.to_string(), "origin_batch": job.batch, "entry": entry}));
        let path = write_replay_file(&format!("{}-{}{}-{}", seed, job.leg, job.batch, raw.class), &v);
        let (found, _) = execute_replay(&path);
        if !found.iter().any(|f| class_compatible(class_of(f), &raw.class)) {
            unconfirmed += 1;
            continue;
        }
        vio_samples.push(json!({"class": raw.class, "detail": raw.detail, "replay": path, "runs_in_replay": small.iter().map(|e| e.runs.len()).sum::<usize>()}));
        violation_lines.push(format!("VIOLATION property={} replay={}", PROPERTY, path));
        eprintln!("[c07] {}: {}", raw.class, raw.detail);
    }

    // leg M verdicts: a data race or an output mismatch under Miri is a violation
    // once the same Miri seed reproduces it; anything else is inconclusive
    for o in miri_out.iter().filter(|o| matches!(o.status, miri::Status::DataRace | miri::Status::Mismatch)) {
        if violation_lines.len() >= 8 {
            break;
        }
        let again = miri::run_one(o.seed, o.threads, o.variant, Duration::from_secs(3600));
        if again.status != o.status {
            unconfirmed += 1;
            continue;
        }
        let class = if o.status == miri::Status::DataRace { "miri-data-race" } else { "miri-mismatch" };
        let v = json!({"property": PROPERTY, "seed": seed.to_string(), "violation": {"class": class, "detail": o.tail},
            "miri": {"miri_seed": o.seed, "threads": o.threads, "variant": o.variant, "flags": miri::FLAGS},
            "how_to_replay": "./check C07 --replay <this file>  (runs sim/c07m under cargo +nightly miri with this seed)"});
        let path = write_replay_file(&format!("{}-miri-{}", seed, o.seed), &v);
        vio_samples.push(json!({"class": class, "replay": path}));
        violation_lines.push(format!("VIOLATION property={} replay={}", PROPERTY, path));
    }

    // ---- evidence
    let wall = t0.elapsed().as_secs_f64();
    let runs_s = b.s_batches * b.s_size;
    let runs_n = b.n_batches * b.n_size + b.fresh;
    let evaluations = runs_s + runs_n;
    let nontrivial = sets.get("nontrivial_S").map(|s| s.len()).unwrap_or(0) + sets.get("nontrivial_N").map(|s| s.len()).unwrap_or(0);
    let mut ev = Evidence::new(PROPERTY, tier, seed, "exploration");
    ev.cov("evaluations", json!(evaluations));
    ev.cov("distinct_nontrivial", json!(nontrivial));
    ev.cov("rule", json!("one evaluation = one simulated run (1-16 caller threads x 1-6 conversions, optional warm-up) inside an episode (= one process, one history). Leg S: shuttle tasks, cold tables per run, seeded random/PCT schedules, every table access a possible scheduling point. Leg N: shipped once_cell statics, one thread, fresh OS thread (fresh SipHash keys from the simulator) per run; leg F = leg N with one run per process (first conversion of a process). A run is non-trivial if it compared at least two observations of one key made under different conditions; distinct = distinct (schedule digest, workload digest) pairs among those."));
    let pool2 = pool.clone();
    let sample_runs: Vec<Value> = {
        let rs = regen_batch(seed, 'S', 0, 3, &pool2);
        rs.iter().map(|r| { let mut v = r.to_json(); if let Some(t) = v.get_mut("texts").and_then(|t| t.as_array_mut()) { for x in t.iter_mut() { *x = json!(simcommon::preview(x.as_str().unwrap_or(""), 120)); } } v }).collect()
    };
    ev.cov("samples", json!(sample_runs));
    ev.cov("legs", json!({"S": {"episodes": b.s_batches, "runs": runs_s}, "N": {"episodes": b.n_batches, "runs": b.n_batches * b.n_size}, "F_fresh_process": {"episodes": b.fresh, "runs": b.fresh}, "M_miri": miri_note}));
    ev.cov("miri", json!(miri_out.iter().map(|o| o.to_json()).collect::<Vec<_>>()));
    ev.cov("counters", json!(agg));
    ev.cov("processes", json!(jobs.len()));
    ev.cov("distinct_keys", json!(global.len()));
    ev.cov("cross_process_comparisons", json!(cross_process_comparisons));
    ev.cov("max_processes_agreeing_on_one_key", json!(processes_per_key_max));
    ev.cov("distinct_interleavings", json!(sets.get("interleavings").map(|s| s.len()).unwrap_or(0)));
    ev.cov("interleaving_measure", json!("digest of the scheduler's full sequence of task choices in a run"));
    ev.cov("tables_initialised_in_simulation", json!(sets.get("tables").map(|s| s.len()).unwrap_or(0)));
    ev.cov("distinct_table_x_initialising_thread", json!(sets.get("init_assignments").map(|s| s.len()).unwrap_or(0)));
    ev.cov("distinct_hash_orders_seen", json!({"S": sets.get("hash_canaries_S").map(|s| s.len()).unwrap_or(0), "N": sets.get("hash_canaries_N").map(|s| s.len()).unwrap_or(0)}));
    ev.cov("entry_point_use", json!(ENTRY_NAMES.iter().zip(entry_use.iter()).map(|(n, c)| (n.to_string(), *c)).collect::<BTreeMap<_, _>>()));
    ev.cov("threads_per_run_histogram", json!(threads_hist));
    ev.cov("fault_kinds", json!({"hash-seed change (per run, per process)": evaluations, "first-use race on cold tables (leg S runs with >=2 threads)": agg.get("S.probe_found_table_being_initialised").copied().unwrap_or(0), "preemption at table access": agg.get("S.steps").copied().unwrap_or(0), "thread creation failing with EAGAIN inside a conversion (native episodes)": agg.get("N.thread_create_failures").copied().unwrap_or(0), "clock jumping ahead 5 s inside a conversion (native episodes)": agg.get("N.clock_jumps").copied().unwrap_or(0), "history (preceding conversions in the same process)": agg.get("S.comparisons_cross_run").copied().unwrap_or(0) + agg.get("N.comparisons_cross_run").copied().unwrap_or(0)}));
    ev.cov("runs_per_hour", json!((evaluations as f64 / wall * 3600.0) as u64));
    ev.cov("simulated_time", json!("none: the library reads no clock; progress is counted in scheduler steps (counters.S.steps)"));
    ev.cov("determinism_selftest", json!({"episodes_executed_twice": sample.len(), "mismatches": st_mismatch.len(), "worker_counts": [threads, 3.min(threads)]}));
    ev.cov("real_vs_stub", json!({"leg S": {"real": "all of svgbob and its dependencies", "stub": "once_cell::sync::Lazy (shuttle's Lazy/Once), std threads (shuttle tasks), getrandom"}, "leg N/F": {"real": "everything incl. once_cell and std HashMap", "stub": "getrandom (hash keys)"}}));
    ev.cov("violation_classes_seen", json!(seen_classes));
    ev.cov("violations_sample", json!(vio_samples));
    ev.cov("known_findings_hit", json!(known_hits));
    ev.cov("cpu_seconds_in_workers", json!(cpu_s as u64));
    ev.assumptions = vec![
        "leg S replaces the lazy-initialisation primitive and can preempt only at table accesses and shuttle primitives; synchronisation written with raw std types is invisible to it (leg M / Miri covers that class at low volume)".into(),
        "agreement between observations is the oracle: a conversion that is wrong in the same way every time is not a C07 matter".into(),
        "a clean batch is evidence over the sampled schedules, hash seeds and histories, not proof".into(),
    ];
    ev.wall_s = wall;
    ev.violations = violation_lines.len() as u64;
    ev.write();
    for (what, n) in &known_hits {
        println!("KNOWN-FINDING: property={} {} ({} occurrences)", PROPERTY, what, n);
    }
    for l in &violation_lines {
        println!("{}", l);
    }
    eprintln!(
        "[c07] {} runs in {} processes, {} keys, {} in-process + {} cross-process comparisons, {} interleavings, {:.1}s",
        evaluations,
        jobs.len(),
        global.len(),
        agg.get("S.comparisons").copied().unwrap_or(0) + agg.get("N.comparisons").copied().unwrap_or(0),
        cross_process_comparisons,
        sets.get("interleavings").map(|s| s.len()).unwrap_or(0),
        wall
    );
    if !violation_lines.is_empty() {
        1
    } else if unconfirmed > 0 {
        simcommon::harness_error("a reported mismatch did not reproduce from its explicit description")
    } else if nondeterministic {
        // Every explored run was judged by the oracle and none failed; the
        // mismatch only means that a failure might not have replayed exactly.
        eprintln!("[c07] warning: the system under test was not fully deterministic under the simulator (see determinism_selftest in the evidence); no violation found");
        0
    } else {
        0
    }
}


fn replay(path: &str) -> i32 {
    if let Ok(txt) = std::fs::read_to_string(path) {
        if let Ok(v) = simcommon::serde_json::from_str::<Value>(&txt) {
            if let Some(m) = v.get("miri") {
                let o = miri::run_one(m["miri_seed"].as_u64().unwrap_or(0), m["threads"].as_u64().unwrap_or(2) as usize, m["variant"].as_u64().unwrap_or(0) as usize, Duration::from_secs(3600));
                println!("{}", o.tail);
                if matches!(o.status, miri::Status::DataRace | miri::Status::Mismatch) {
                    println!("VIOLATION property={} replay={}", PROPERTY, path);
                    return 1;
                }
                println!("REPLAY: no violation reproduced ({:?})", o.status);
                return 0;
            }
        }
    }
    let (found, results) = execute_replay(path);
    for r in &results {
        for l in &r.lines {
            if l.get("t").and_then(|t| t.as_str()) != Some("obs") {
                println!("{}", simcommon::preview(&l.to_string(), 600));
            }
        }
    }
    if found.is_empty() {
        println!("REPLAY: no violation reproduced");
        return 0;
    }
    for f in &found {
        println!("REPLAY: {}", f);
    }
    println!("VIOLATION property={} replay={}", PROPERTY, path);
    1
}

fn main() {
    let args: Vec<String> = std::env::args().skip(1).collect();
    if args.iter().any(|a| a == "--worker") {
        native_worker(&args);
        return;
    }
    if let Some(p) = arg(&args, "--replay") {
        std::process::exit(replay(&p));
    }
    let tier = arg(&args, "--tier").unwrap_or_else(|| std::env::var("VERIF_TIER").unwrap_or_else(|_| "quick".into()));
    std::process::exit(check(&tier));
}
