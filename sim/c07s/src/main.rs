//! C07 leg S: caller threads are shuttle tasks, the lazily built tables are
//! re-created for every execution and every table access can be a scheduling
//! point. One process executes one *episode* (a batch of runs, in order); the
//! oracle spans the whole episode, the coordinator (c07n) merges episodes.
//!
//!   c07s --seed S --batch B --size N          generated episode
//!   c07s --episode-file F --episode K         explicit episode from a replay file
//!
//! Output: JSON lines on stdout (obs / violation / run / stats).

#[path = "../../c07/src/core.rs"]
mod core;

use crate::core::*;
use shuttle::scheduler::{PctScheduler, RandomScheduler, Schedule, Scheduler, Task, TaskId};
use simcommon::gen::Pool;
use simcommon::{json, Digest, Value};
use std::collections::{BTreeMap, BTreeSet};
use std::sync::{Arc, Mutex};

static ANCHOR: u8 = 0;

#[derive(Default)]
struct TableState {
    initialised: bool,
    inside: Vec<usize>, // tasks currently inside `get`
}

#[derive(Default)]
struct Events {
    tables: BTreeMap<usize, TableState>,
    /// probes
    found_initialising: u64,
    activity_during_init: u64,
    init_assignments: BTreeSet<(usize, usize)>, // (table, task that initialised it)
    accesses: u64,
    inits_open: usize,
}

static EVENTS: Mutex<Option<Events>> = Mutex::new(None);

fn observer(addr: usize, ev: u8) {
    let table = addr.wrapping_sub(&ANCHOR as *const u8 as usize);
    let me: usize = shuttle::current::get_current_task().map(|t| t.into()).unwrap_or(usize::MAX);
    let mut g = EVENTS.lock().unwrap();
    let e = match g.as_mut() {
        Some(e) => e,
        None => return,
    };
    match ev {
        0 => {
            e.accesses += 1;
            if e.inits_open > 0 {
                // somebody is initialising a table while this task touches tables
                let foreign = e.tables.values().any(|t| !t.initialised && t.inside.iter().any(|x| *x != me));
                if foreign {
                    e.activity_during_init += 1;
                }
            }
        }
        1 => {
            let t = e.tables.entry(table).or_default();
            if !t.initialised {
                if t.inside.iter().any(|x| *x != me) {
                    e.found_initialising += 1;
                } else if t.inside.is_empty() {
                    e.init_assignments.insert((table, me));
                    e.inits_open += 1;
                }
            }
            t.inside.push(me);
        }
        _ => {
            let t = e.tables.entry(table).or_default();
            if !t.initialised {
                t.initialised = true;
                e.inits_open = e.inits_open.saturating_sub(1);
            }
            if let Some(p) = t.inside.iter().position(|x| *x == me) {
                t.inside.remove(p);
            }
        }
    }
}

struct Recording {
    inner: Box<dyn Scheduler + Send>,
    rec: Arc<Mutex<Vec<u32>>>,
}

impl Scheduler for Recording {
    fn new_execution(&mut self) -> Option<Schedule> {
        self.inner.new_execution()
    }
    fn next_task(&mut self, runnable: &[&Task], current: Option<TaskId>, is_yielding: bool) -> Option<TaskId> {
        let t = self.inner.next_task(runnable, current, is_yielding);
        if let Some(t) = t {
            let id: usize = t.into();
            self.rec.lock().unwrap().push(id as u32);
        }
        t
    }
    fn next_u64(&mut self) -> u64 {
        self.inner.next_u64()
    }
}

/// Replays an explicit list of task choices; when the list runs out or names a
/// task that is not runnable it falls back to the lowest runnable task id.
struct Fixed {
    steps: Vec<u32>,
    pos: usize,
    used: bool,
    diverged: Arc<Mutex<u64>>,
}

impl Scheduler for Fixed {
    fn new_execution(&mut self) -> Option<Schedule> {
        if self.used {
            None
        } else {
            self.used = true;
            Some(Schedule::new(0))
        }
    }
    fn next_task(&mut self, runnable: &[&Task], _current: Option<TaskId>, _is_yielding: bool) -> Option<TaskId> {
        let want = self.steps.get(self.pos).copied();
        self.pos += 1;
        if let Some(w) = want {
            if let Some(t) = runnable.iter().find(|t| {
                let id: usize = t.id().into();
                id as u32 == w
            }) {
                return Some(t.id());
            }
            *self.diverged.lock().unwrap() += 1;
        }
        runnable.iter().map(|t| t.id()).min_by_key(|t| {
            let id: usize = (*t).into();
            id
        })
    }
    fn next_u64(&mut self) -> u64 {
        0
    }
}

struct Shared {
    oracle: Mutex<Oracle>,
    in_flight: Mutex<BTreeMap<Digest, u32>>,
    same_key_in_flight: Mutex<u64>,
}

fn do_op(run: &RunDesc, op: &Op, at: Where, sh: &Shared) {
    let key = op_key(run, op);
    {
        let mut f = sh.in_flight.lock().unwrap();
        let c = f.entry(key).or_insert(0);
        *c += 1;
        if *c >= 2 {
            *sh.same_key_in_flight.lock().unwrap() += 1;
        }
    }
    let out = convert(run, op);
    {
        let mut f = sh.in_flight.lock().unwrap();
        if let Some(c) = f.get_mut(&key) {
            *c -= 1;
        }
    }
    sh.oracle.lock().unwrap().observe(key, op.entry, at, out);
}

/// Crowd runs (more than 32 threads): 4 long-lived callers do their first
/// conversion and wait; the churn runs in waves of 16 short-lived threads; then
/// the 8 late-comers start and the long-lived ones continue alongside them.
fn crowd_scenario(run: &Arc<RunDesc>, sh: &Arc<Shared>) {
    use shuttle::sync::{Condvar, Mutex as SMutex};
    let n = run.threads.len();
    let gate = Arc::new((SMutex::new((0usize, false)), Condvar::new())); // (started, open)
    let spawn_plain = |t: usize| {
        let run = run.clone();
        let sh = sh.clone();
        shuttle::thread::spawn(move || {
            for (i, op) in run.threads[t].iter().enumerate() {
                do_op(&run, op, Where { run: run.idx, thread: t as i32, pos: i as u32 }, &sh);
            }
        })
    };
    let mut long_lived = vec![];
    for t in 0..4 {
        let run = run.clone();
        let sh = sh.clone();
        let gate = gate.clone();
        long_lived.push(shuttle::thread::spawn(move || {
            for (i, op) in run.threads[t].iter().enumerate() {
                do_op(&run, op, Where { run: run.idx, thread: t as i32, pos: i as u32 }, &sh);
                if i == 0 {
                    let (m, cv) = &*gate;
                    let mut g = m.lock().unwrap();
                    g.0 += 1;
                    cv.notify_all();
                    while !g.1 {
                        g = cv.wait(g).unwrap();
                    }
                }
            }
        }));
    }
    {
        let (m, cv) = &*gate;
        let mut g = m.lock().unwrap();
        while g.0 < 4 {
            g = cv.wait(g).unwrap();
        }
    }
    let mut t = 4;
    while t < n - 8 {
        let hi = (t + 16).min(n - 8);
        let wave: Vec<_> = (t..hi).map(spawn_plain).collect();
        for h in wave {
            let _ = h.join();
        }
        t = hi;
    }
    let late: Vec<_> = (n - 8..n).map(spawn_plain).collect();
    {
        let (m, cv) = &*gate;
        m.lock().unwrap().1 = true;
        cv.notify_all();
    }
    for h in late.into_iter().chain(long_lived) {
        let _ = h.join();
    }
}

fn scenario(run: &Arc<RunDesc>, sh: &Arc<Shared>) {
    for (i, op) in run.warmup.iter().enumerate() {
        do_op(run, op, Where { run: run.idx, thread: -1, pos: i as u32 }, sh);
    }
    if run.threads.len() > 32 {
        return crowd_scenario(run, sh);
    }
    let mut hs = vec![];
    for t in 0..run.threads.len() {
        let run = run.clone();
        let sh = sh.clone();
        hs.push(shuttle::thread::spawn(move || {
            for (i, op) in run.threads[t].iter().enumerate() {
                do_op(&run, op, Where { run: run.idx, thread: t as i32, pos: i as u32 }, &sh);
            }
        }));
    }
    for h in hs {
        let _ = h.join();
    }
}

struct RunReport {
    schedule: Vec<u32>,
    steps: usize,
    aborted: Option<String>,
    events: Events,
    canary: u64,
    accesses: u64,
    diverged: u64,
}

fn exec_run(run: Arc<RunDesc>, sh: Arc<Shared>) -> RunReport {
    let rec: Arc<Mutex<Vec<u32>>> = Arc::new(Mutex::new(vec![]));
    let rec2 = rec.clone();
    let diverged = Arc::new(Mutex::new(0u64));
    let div2 = diverged.clone();
    *EVENTS.lock().unwrap() = Some(Events::default());
    let run2 = run.clone();
    let h = std::thread::Builder::new()
        .name(format!("run{}", run.idx))
        .stack_size(4 << 20)
        .spawn(move || {
            // fresh OS thread => std draws fresh SipHash keys from our getrandom
            set_hash_seed(run2.hash_seed);
            let canary = hash_order_canary();
            svgbob_verif_once_cell::sim_begin(run2.yield_every, run2.sched_seed);
            let inner: Box<dyn Scheduler + Send> = match &run2.schedule {
                Some(steps) => Box::new(Fixed { steps: steps.clone(), pos: 0, used: false, diverged: div2 }),
                None => {
                    if run2.sched_kind == 1 {
                        Box::new(PctScheduler::new_from_seed(run2.sched_seed, run2.pct_depth, 1))
                    } else {
                        Box::new(RandomScheduler::new_from_seed(run2.sched_seed, 1))
                    }
                }
            };
            let sched = Recording { inner, rec: rec2 };
            let mut config = shuttle::Config::new();
            // crowds of tiny conversions get smaller stacks (hundreds of tasks)
            config.stack_size = if run2.threads.len() > 32 { 4 << 20 } else { 16 << 20 };
            config.max_steps = shuttle::MaxSteps::None;
            config.failure_persistence = shuttle::FailurePersistence::None;
            config.silence_warnings = true;
            let runner = shuttle::Runner::new(sched, config);
            let r3 = run2.clone();
            let sh2 = sh.clone();
            QUIET.with(|q| q.set(false));
            runner.run(move || scenario(&r3, &sh2));
            let accesses = svgbob_verif_once_cell::sim_end();
            (canary, accesses)
        })
        .expect("spawn run thread");
    let (aborted, canary, accesses) = match h.join() {
        Ok((c, a)) => (None, c, a),
        Err(e) => {
            let msg = e
                .downcast_ref::<String>()
                .cloned()
                .or_else(|| e.downcast_ref::<&str>().map(|s| s.to_string()))
                .unwrap_or_else(|| "panic".into());
            (Some(msg), 0, 0)
        }
    };
    let events = EVENTS.lock().unwrap().take().unwrap_or_default();
    let schedule = rec.lock().unwrap().clone();
    let d = *diverged.lock().unwrap();
    RunReport { steps: schedule.len(), schedule, aborted, events, canary, accesses, diverged: d }
}

fn arg(args: &[String], name: &str) -> Option<String> {
    args.iter().position(|a| a == name).and_then(|i| args.get(i + 1).cloned())
}

fn main() {
    let args: Vec<String> = std::env::args().skip(1).collect();
    install_quiet_panic_hook();
    install_host_logger(arg(&args, "--host-log").and_then(|s| s.parse().ok()).unwrap_or(0));
    svgbob_verif_once_cell::set_observer(observer);
    let seed: u64 = arg(&args, "--seed").and_then(|s| s.parse().ok()).unwrap_or(simcommon::DEFAULT_SEED);
    let emit_schedules = args.iter().any(|a| a == "--emit-schedules");
    let runs: Vec<RunDesc> = if let Some(f) = arg(&args, "--episode-file") {
        let k: usize = arg(&args, "--episode").and_then(|s| s.parse().ok()).unwrap_or(0);
        let txt = std::fs::read_to_string(&f).unwrap_or_else(|e| simcommon::harness_error(&format!("{}: {}", f, e)));
        let v: Value = simcommon::serde_json::from_str(&txt).unwrap_or_else(|e| simcommon::harness_error(&format!("{}: {}", f, e)));
        v.get("episodes")
            .and_then(|e| e.as_array())
            .and_then(|e| e.get(k))
            .and_then(|e| e.get("runs"))
            .and_then(|r| r.as_array())
            .map(|r| r.iter().map(RunDesc::from_json).collect())
            .unwrap_or_default()
    } else {
        let batch: u64 = arg(&args, "--batch").and_then(|s| s.parse().ok()).unwrap_or(0);
        let size: u64 = arg(&args, "--size").and_then(|s| s.parse().ok()).unwrap_or(100);
        let max_threads: usize = arg(&args, "--max-threads").and_then(|s| s.parse().ok()).unwrap_or(16);
        let pool = Pool::load(&simcommon::repo_dir(), 6000);
        let mut g = BatchGen { profile: episode_profile(batch), pool: &pool, memory: vec![], canaries: canaries(seed, &pool) };
        (0..size).map(|i| g.gen_run(seed, batch * size + i, max_threads)).collect()
    };

    let sh = Arc::new(Shared { oracle: Mutex::new(Oracle::new()), in_flight: Mutex::new(BTreeMap::new()), same_key_in_flight: Mutex::new(0) });
    let out = std::io::stdout();
    let mut reported = 0usize;
    let mut tot_steps = 0u64;
    let mut tot_access = 0u64;
    let mut found_init = 0u64;
    let mut act_init = 0u64;
    let mut assignments: BTreeSet<(usize, usize)> = BTreeSet::new();
    let mut tables: BTreeSet<usize> = BTreeSet::new();
    let mut canaries_seen: BTreeSet<u64> = BTreeSet::new();
    let mut interleavings: BTreeSet<u64> = BTreeSet::new();
    let mut nontrivial: BTreeSet<u64> = BTreeSet::new();
    let mut entry_use = [0u64; 5];
    let mut threads_hist: BTreeMap<usize, u64> = BTreeMap::new();
    let mut ops_total = 0u64;
    use std::io::Write;
    for run in runs {
        let run = Arc::new(run);
        let before_cmp = sh.oracle.lock().unwrap().comparisons;
        let rep = exec_run(run.clone(), sh.clone());
        tot_steps += rep.steps as u64;
        tot_access += rep.accesses;
        found_init += rep.events.found_initialising;
        act_init += rep.events.activity_during_init;
        for a in &rep.events.init_assignments {
            assignments.insert(*a);
            tables.insert(a.0);
        }
        canaries_seen.insert(rep.canary);
        let mut sd = Digest::new();
        for s in &rep.schedule {
            sd.u64(*s as u64);
        }
        let mut wd = Digest::new();
        wd.str(&run.to_json().to_string());
        interleavings.insert(sd.short());
        if sh.oracle.lock().unwrap().comparisons > before_cmp {
            nontrivial.insert(sd.short() ^ wd.short().rotate_left(17));
        }
        for op in run.warmup.iter().chain(run.threads.iter().flatten()) {
            entry_use[op.entry as usize] += 1;
            ops_total += 1;
        }
        *threads_hist.entry(run.threads.len()).or_default() += 1;
        let mut o = out.lock();
        if let Some(msg) = &rep.aborted {
            // a shuttle primitive reached from outside the simulated execution is
            // harness trouble (e.g. the code under test started real threads), not a verdict
            let class = if msg.contains("ExecutionState") {
                "harness-outside-execution"
            } else if msg.contains("deadlock") {
                "deadlock"
            } else {
                "execution-aborted"
            };
            let mut r = (*run).clone();
            r.schedule = Some(rep.schedule.clone());
            let _ = writeln!(o, "{}", json!({"t":"violation","class":class,"detail":simcommon::preview(msg, 400),"run":r.to_json()}));
        }
        let mism: Vec<Mismatch> = {
            let orc = sh.oracle.lock().unwrap();
            orc.mismatches[reported..].to_vec()
        };
        reported += mism.len();
        for m in mism.iter().take(3) {
            let mut r = (*run).clone();
            r.schedule = Some(rep.schedule.clone());
            let _ = writeln!(
                o,
                "{}",
                json!({"t":"violation","class":m.kind,"entry":ENTRY_NAMES[m.entry as usize],"key":m.key.hex(),
                    "first":{"run":m.first.run,"thread":m.first.thread,"pos":m.first.pos},
                    "second":{"run":m.second.run,"thread":m.second.thread,"pos":m.second.pos},
                    "detail":m.detail,"run":r.to_json()})
            );
        }
        if emit_schedules {
            let _ = writeln!(o, "{}", json!({"t":"run","idx":run.idx,"schedule_digest":format!("{:016x}", sd.short()),"steps":rep.steps,"diverged":rep.diverged}));
        }
    }
    let orc = sh.oracle.lock().unwrap();
    let mut o = out.lock();
    for (k, (w, outc)) in orc.first.iter() {
        let _ = writeln!(o, "{}", json!({"t":"obs","k":k.hex(),"o":outc.digest().hex(),"p":outc.is_panic(),"run":w.run}));
    }
    let _ = writeln!(
        o,
        "{}",
        json!({"t":"stats","leg":"S","ops":ops_total,"keys":orc.first.len(),"comparisons":orc.comparisons,
            "comparisons_cross_thread":orc.comparisons_cross_thread,"comparisons_cross_run":orc.comparisons_cross_run,
            "panics":orc.panics,"mismatches":orc.mismatches.len(),"steps":tot_steps,"table_accesses":tot_access,
            "probe_found_table_being_initialised":found_init,"probe_activity_during_foreign_init":act_init,
            "probe_same_key_in_flight":*sh.same_key_in_flight.lock().unwrap(),
            "init_assignments":assignments.iter().map(|(t,k)| format!("{:x}:{}",t,k)).collect::<Vec<_>>(),
            "tables":tables.iter().map(|t| format!("{:x}",t)).collect::<Vec<_>>(),
            "hash_canaries":canaries_seen.iter().map(|c| format!("{:x}",c)).collect::<Vec<_>>(),
            "interleavings":interleavings.iter().map(|c| format!("{:x}",c)).collect::<Vec<_>>(),
            "nontrivial":nontrivial.iter().map(|c| format!("{:x}",c)).collect::<Vec<_>>(),
            "entry_use":entry_use,"threads_hist":threads_hist,
            "getrandom_calls":GETRANDOM_CALLS.load(std::sync::atomic::Ordering::Relaxed)})
    );
}
