/*
 * libverif_thr.so — thread-creation faults for the native legs of C07.
 *
 * LD_PRELOADed into c07n worker processes of some episodes. While the harness
 * has switched it on (verif_thr_set(1), i.e. only inside a library
 * conversion, never for the harness's own threads), every VERIF_THR_PERIOD-th
 * pthread_create fails with EAGAIN, as it does when a process runs into
 * RLIMIT_NPROC / pids.max / memory limits. A conversion may then fail; it must
 * not return different bytes.
 *
 * Clock jumps: with VERIF_CLOCK_JUMP_PERIOD=k every k-th clock_gettime() made
 * inside a conversion finds the clock 5 s further on (cumulative, so monotonic
 * clocks stay monotonic): a loaded or suspended machine. What a conversion
 * returns must not depend on how long it took.
 */
#define _GNU_SOURCE
#include <dlfcn.h>
#include <errno.h>
#include <pthread.h>
#include <stdlib.h>

static volatile int thr_on = 0;
static volatile long thr_count = 0;
static volatile long thr_failed = 0;
static long period = 0;

void verif_thr_set(int on) { thr_on = on; }
long verif_thr_failed(void) { return thr_failed; }

int pthread_create(pthread_t *t, const pthread_attr_t *a, void *(*f)(void *), void *arg) {
    static int (*real)(pthread_t *, const pthread_attr_t *, void *(*)(void *), void *) = 0;
    if (!real) real = (int (*)(pthread_t *, const pthread_attr_t *, void *(*)(void *), void *))dlsym(RTLD_NEXT, "pthread_create");
    if (!period) {
        const char *p = getenv("VERIF_THR_PERIOD");
        period = p ? atol(p) : -1;
        if (period == 0) period = -1;
    }
    if (thr_on && period > 0) {
        long n = __sync_add_and_fetch(&thr_count, 1);
        if (n % period == 0) {
            __sync_add_and_fetch(&thr_failed, 1);
            return EAGAIN;
        }
    }
    return real(t, a, f, arg);
}

#include <time.h>
#include <sys/syscall.h>
#include <unistd.h>

static long jump_period = 0;
static volatile long clock_calls = 0;
static volatile long long clock_offset_s = 0;
static volatile long clock_jumps = 0;

long verif_clock_jumps(void) { return clock_jumps; }

int clock_gettime(clockid_t id, struct timespec *ts) {
    long r = syscall(SYS_clock_gettime, id, ts);
    if (!jump_period) {
        const char *p = getenv("VERIF_CLOCK_JUMP_PERIOD");
        jump_period = p ? atol(p) : -1;
        if (jump_period == 0) jump_period = -1;
    }
    if (r == 0 && jump_period > 0) {
        if (thr_on) {
            long n = __sync_add_and_fetch(&clock_calls, 1);
            if (n % jump_period == 0) {
                __sync_add_and_fetch(&clock_offset_s, 5);
                __sync_add_and_fetch(&clock_jumps, 1);
            }
        }
        ts->tv_sec += clock_offset_s;
    }
    return (int)r;
}
