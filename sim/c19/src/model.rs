//! Executable reference model of the CLI contract (property C19) and the
//! judge that compares an observed run with it.
//!
//! The model is an independent, table-driven restatement of the contract in the
//! property text and `--help`; it calls the library from the same /repo tree to
//! obtain the document the CLI is supposed to deliver.

use crate::exec::{Node, Observed};
use crate::spec::*;
use simcommon::{json, Value};
use std::cell::RefCell;
use std::collections::{BTreeMap, BTreeSet, HashMap};
use std::path::Path;

thread_local! {
    static DOC_CACHE: RefCell<HashMap<(String, String), Option<String>>> = RefCell::new(HashMap::new());
    pub static QUIET_PANIC: RefCell<bool> = RefCell::new(false);
}

pub fn install_quiet_panic_hook() {
    let prev = std::panic::take_hook();
    std::panic::set_hook(Box::new(move |info| {
        let quiet = QUIET_PANIC.with(|q| *q.borrow());
        if !quiet {
            prev(info);
        }
    }));
}

/// Settings as the contract maps them from the options.
#[derive(Clone, Debug)]
struct ModelSettings {
    background: Option<String>,
    fill_color: Option<String>,
    font_family: Option<String>,
    font_size: Option<usize>,
    stroke_width: Option<f32>,
    stroke_color: Option<String>,
    scale: Option<f32>,
}

impl ModelSettings {
    fn to_settings(&self) -> svgbob::Settings {
        let mut s = svgbob::Settings::default();
        if let Some(v) = &self.background {
            s.background = v.clone();
        }
        if let Some(v) = &self.fill_color {
            s.fill_color = v.clone();
        }
        if let Some(v) = &self.font_family {
            s.font_family = v.clone();
        }
        if let Some(v) = self.font_size {
            s.font_size = v;
        }
        if let Some(v) = self.stroke_width {
            s.stroke_width = v;
        }
        if let Some(v) = &self.stroke_color {
            s.stroke_color = v.clone();
        }
        if let Some(v) = self.scale {
            // "--scale: scale the entire svg ... by this factor (default: 1)"; the
            // library's default scale is 8 units per cell.
            s.scale = 8.0 * v;
        }
        s
    }
    fn key(&self) -> String {
        format!("{:?}", self)
    }
}

/// The library's document for (text, settings); None if the library panics.
fn document(text: &str, ms: &ModelSettings) -> Option<String> {
    let key = (text.to_string(), ms.key());
    if let Some(v) = DOC_CACHE.with(|c| c.borrow().get(&key).cloned()) {
        return v;
    }
    let settings = ms.to_settings();
    QUIET_PANIC.with(|q| *q.borrow_mut() = true);
    let r = std::panic::catch_unwind(|| svgbob::to_svg_with_settings(text, &settings)).ok();
    QUIET_PANIC.with(|q| *q.borrow_mut() = false);
    DOC_CACHE.with(|c| {
        let mut c = c.borrow_mut();
        if c.len() > 2000 {
            c.clear();
        }
        c.insert(key, r.clone());
    });
    r
}

pub fn norm(p: &str) -> String {
    let mut parts: Vec<&str> = vec![];
    for c in p.split('/') {
        match c {
            "" | "." => {}
            ".." => {
                parts.pop();
            }
            x => parts.push(x),
        }
    }
    parts.join("/")
}

fn parent_of(p: &str) -> String {
    match p.rfind('/') {
        Some(i) => p[..i].to_string(),
        None => String::new(),
    }
}

/// What the contract says about a run, before faults are considered.
#[derive(Clone, Debug)]
pub struct Expect {
    /// None: the requested conversion can succeed. Some(reason): it cannot.
    pub failure: Option<String>,
    /// exact standard output required on success (convert without -o)
    pub stdout: Option<Vec<u8>>,
    /// files that must exist with exactly this content on success, and that
    /// are the only acceptable new contents on failure
    pub outputs: BTreeMap<String, Vec<u8>>,
}

struct World {
    dirs: BTreeSet<String>,
    files: BTreeMap<String, Vec<u8>>,
    /// named pipes: readable like files, not regular files
    fifos: BTreeMap<String, Vec<u8>>,
}

fn world(spec: &RunSpec) -> World {
    let mut dirs = BTreeSet::new();
    dirs.insert(String::new());
    let add_dir = |d: &str, dirs: &mut BTreeSet<String>| {
        let mut cur = norm(d);
        while !cur.is_empty() {
            dirs.insert(cur.clone());
            cur = parent_of(&cur);
        }
    };
    for d in &spec.dirs {
        add_dir(d, &mut dirs);
    }
    let mut files = BTreeMap::new();
    for (p, c) in &spec.files {
        let n = norm(p);
        add_dir(&parent_of(&n), &mut dirs);
        files.insert(n, c.clone());
    }
    let mut fifos = BTreeMap::new();
    for (p, c) in &spec.fifos {
        let n = norm(p);
        add_dir(&parent_of(&n), &mut dirs);
        fifos.insert(n, c.clone());
    }
    World { dirs, files, fifos }
}

/// The contract evaluated against the directory as it really was before the
/// judged invocation (after earlier invocations of a history have run).
pub fn expect_in(spec: &RunSpec, before: &crate::exec::Tree) -> Expect {
    let mut dirs = BTreeSet::new();
    dirs.insert(String::new());
    let mut files = BTreeMap::new();
    let mut fifos = BTreeMap::new();
    for (p, n) in before {
        match n {
            Node::Dir => {
                dirs.insert(p.clone());
            }
            Node::File(c) => {
                files.insert(p.clone(), c.clone());
            }
            Node::Special => {
                if let Some((_, c)) = spec.fifos.iter().find(|(fp, _)| norm(fp) == *p) {
                    fifos.insert(p.clone(), c.clone());
                }
            }
        }
    }
    let w = World { dirs, files, fifos };
    match &spec.mode {
        Mode::Convert(c) => expect_convert(spec, c, &w),
        Mode::Build(b) => expect_build(b, &w),
    }
}

pub fn expect(spec: &RunSpec) -> Expect {
    let w = world(spec);
    match &spec.mode {
        Mode::Convert(c) => expect_convert(spec, c, &w),
        Mode::Build(b) => expect_build(b, &w),
    }
}

fn expect_convert(spec: &RunSpec, c: &Convert, w: &World) -> Expect {
    let failure_cell: RefCell<Option<String>> = RefCell::new(None);
    let fail = |r: &str| {
        let mut f = failure_cell.borrow_mut();
        if f.is_none() {
            *f = Some(r.to_string());
        }
    };
    let failed = || failure_cell.borrow().is_some();
    // input selection
    let text: Option<String> = match &c.input {
        InputSel::Inline(t) => Some(t.replace("\\n", "\n")),
        InputSel::Stdin => match String::from_utf8(spec.stdin.clone().unwrap_or_default()) {
            Ok(s) => Some(s),
            Err(_) => {
                fail("standard input is not UTF-8");
                None
            }
        },
        InputSel::File(p) => {
            let n = norm(p);
            match w.files.get(&n).or_else(|| w.fifos.get(&n)) {
                Some(b) => match String::from_utf8(b.clone()) {
                    Ok(s) => Some(s),
                    Err(_) => {
                        fail("input file is not UTF-8");
                        None
                    }
                },
                None => {
                    fail(if w.dirs.contains(&n) { "input is a directory" } else { "input file missing" });
                    None
                }
            }
        }
    };
    // option -> setting table
    let mut ms = ModelSettings {
        background: None,
        fill_color: None,
        font_family: None,
        font_size: None,
        stroke_width: None,
        stroke_color: None,
        scale: None,
    };
    if !c.extra_args.is_empty() {
        fail("usage error: unexpected argument");
    }
    {
        let mut seen = std::collections::BTreeSet::new();
        for o in &c.opts {
            if !seen.insert(o.name.as_str()) {
                fail("usage error: option given twice");
            }
        }
    }
    for o in &c.opts {
        match o.name.as_str() {
            "background" => ms.background = Some(o.value.clone()),
            "fill-color" => ms.fill_color = Some(o.value.clone()),
            "font-family" => ms.font_family = Some(o.value.clone()),
            "stroke-color" => ms.stroke_color = Some(o.value.clone()),
            "font-size" => match o.value.parse::<usize>() {
                Ok(v) => ms.font_size = Some(v),
                Err(_) => fail("unparsable --font-size"),
            },
            "stroke-width" => match o.value.parse::<f32>() {
                Ok(v) => ms.stroke_width = Some(v),
                Err(_) => fail("unparsable --stroke-width"),
            },
            "scale" => match o.value.parse::<f32>() {
                Ok(v) => ms.scale = Some(v),
                Err(_) => fail("unparsable --scale"),
            },
            _ => fail("unknown option"),
        }
    }
    let doc = match (&text, !failed()) {
        (Some(t), true) => match document(t, &ms) {
            Some(d) => Some(d),
            None => {
                fail("the library panics on this input (C01, not C19)");
                None
            }
        },
        _ => None,
    };
    let mut outputs = BTreeMap::new();
    let mut stdout = None;
    match &c.out {
        // special files: the document goes to a sink or to the standard output
        // stream itself (verbatim); nothing appears in the directory
        Some(o) if o == "/dev/null" => {}
        Some(o) if o == "/dev/stdout" => {
            if let Some(d) = &doc {
                stdout = Some(d.clone().into_bytes());
            }
        }
        Some(o) => {
            let n = norm(o);
            if w.dirs.contains(&n) || n.is_empty() {
                fail("output path is a directory");
            } else if !w.dirs.contains(&parent_of(&n)) {
                fail("output directory missing");
            } else if let Some(d) = &doc {
                outputs.insert(n, d.clone().into_bytes());
            }
        }
        None => {
            if let Some(d) = &doc {
                let mut b = d.clone().into_bytes();
                b.push(b'\n');
                stdout = Some(b);
            }
        }
    }
    let failure = failure_cell.borrow().clone();
    if failure.is_some() {
        // nothing may be delivered when the request itself is invalid
        outputs.clear();
        stdout = None;
    }
    Expect { failure, stdout, outputs }
}

fn expect_build(b: &Build, w: &World) -> Expect {
    let pattern = b.pattern.clone().unwrap_or_else(|| "*.bob".to_string());
    let pn = norm(&pattern);
    let (dir, ext) = if w.dirs.contains(&pn) {
        (pn.clone(), Path::new(&pattern).extension().and_then(|e| e.to_str()).unwrap_or("bob").to_string())
    } else {
        (
            parent_of(&pn),
            Path::new(&pattern).extension().and_then(|e| e.to_str()).unwrap_or("bob").to_string(),
        )
    };
    let mut failure: Option<String> = None;
    if !w.dirs.contains(&dir) {
        return Expect { failure: Some("input directory missing".into()), stdout: None, outputs: BTreeMap::new() };
    }
    let outdir = match &b.outdir {
        Some(o) if !o.is_empty() => norm(o),
        _ => dir.clone(),
    };
    // an output directory whose path (or an ancestor) is an existing file cannot be created
    {
        let mut cur = outdir.clone();
        while !cur.is_empty() {
            if w.files.contains_key(&cur) {
                failure = Some("output directory path is a file".into());
            }
            cur = parent_of(&cur);
        }
    }
    let ms = ModelSettings {
        background: None,
        fill_color: None,
        font_family: None,
        font_size: None,
        stroke_width: None,
        stroke_color: None,
        scale: None,
    };
    let mut outputs = BTreeMap::new();
    for (p, content) in &w.files {
        if parent_of(p) != dir {
            continue;
        }
        let name = &p[if dir.is_empty() { 0 } else { dir.len() + 1 }..];
        let path = Path::new(name);
        let fext = path.extension().and_then(|e| e.to_str()).unwrap_or("");
        if fext != ext {
            continue;
        }
        let stem = match path.file_stem().and_then(|s| s.to_str()) {
            Some(s) => s,
            None => continue,
        };
        let out = if outdir.is_empty() { format!("{}.svg", stem) } else { format!("{}/{}.svg", outdir, stem) };
        match String::from_utf8(content.clone()) {
            Ok(t) => match document(&t, &ms) {
                Some(d) => {
                    outputs.insert(out, d.into_bytes());
                }
                None => {
                    if failure.is_none() {
                        failure = Some("the library panics on one input (C01, not C19)".into());
                    }
                }
            },
            Err(_) => {
                if failure.is_none() {
                    failure = Some("an input file is not UTF-8".into());
                }
            }
        }
    }
    Expect { failure, stdout: None, outputs }
}

#[derive(Clone, Debug)]
pub struct Violation {
    pub class: &'static str,
    pub detail: String,
    /// structural signature used for known-finding matching and shrinking
    pub signature: Value,
}

fn first_diff(a: &[u8], b: &[u8]) -> usize {
    a.iter().zip(b.iter()).position(|(x, y)| x != y).unwrap_or_else(|| a.len().min(b.len()))
}

fn describe_diff(got: &[u8], want: &[u8]) -> String {
    let i = first_diff(got, want);
    let lo = i.saturating_sub(20);
    format!(
        "len got={} want={} first difference at byte {}: got …{}… want …{}…",
        got.len(),
        want.len(),
        i,
        simcommon::escape_bytes(&got[lo..(i + 30).min(got.len())]),
        simcommon::escape_bytes(&want[lo..(i + 30).min(want.len())])
    )
}

/// Outcome class for coverage accounting.
pub fn outcome_class(obs: &Observed) -> String {
    match (obs.exit, obs.signal) {
        (Some(c), _) => format!("exit{}", c),
        (None, Some(s)) => format!("sig{}", s),
        _ => "unknown".into(),
    }
}

/// Compare an observed run with the contract. Returns all violations found
/// (the first one is the reported one).
pub fn judge(spec: &RunSpec, exp: &Expect, obs: &Observed) -> Vec<Violation> {
    let mut v: Vec<Violation> = vec![];
    let hard: Vec<String> = obs.injected.iter().filter(|i| i.hard()).map(|i| i.label()).collect();
    let first_hard = hard.first().cloned();
    let mode = spec.mode_name();
    let mode_family = if mode == "build" { "build" } else { "convert" };
    let output_kind = match &spec.mode {
        Mode::Build(_) => "files",
        Mode::Convert(c) => {
            if c.out.is_some() {
                "file"
            } else {
                "stdout"
            }
        }
    };
    let mut push = |class: &'static str, detail: String, extra: Value| {
        let mut sig = json!({
            "mode": mode_family,
            "class": class,
            "output": output_kind,
            "fault": first_hard.clone().unwrap_or_else(|| "none".into()),
            "model_failure": exp.failure.clone().unwrap_or_else(|| "none".into()),
        });
        if let (Some(o), Some(e)) = (sig.as_object_mut(), extra.as_object()) {
            for (k, val) in e {
                o.insert(k.clone(), val.clone());
            }
        }
        v.push(Violation { class, detail, signature: sig });
    };

    if obs.timed_out {
        push("hang", "the CLI did not terminate within the watchdog".into(), json!({}));
        return v;
    }
    // A request the contract itself rejects must fail. Under an injected hard
    // fault the tool may fail -- or recover (retry, fall back to another way of
    // writing) and succeed: then it is held to the success side in full. What
    // it may never do is claim success without having delivered everything.
    let failure_expected = exp.failure.is_some() || (!hard.is_empty() && obs.exit != Some(0));
    let is_expected_output = |p: &str, content: &[u8]| exp.outputs.get(p).map(|d| d.as_slice() == content).unwrap_or(false);

    // --- file system effects, common to both directions: every file is either
    // unchanged or an expected output holding the complete expected document.
    for (p, node) in &obs.after {
        let before = obs.before.get(p);
        if before == Some(node) {
            continue;
        }
        match node {
            Node::Dir | Node::Special => {} // creating directories is not output
            Node::File(content) => {
                if is_expected_output(p, content) {
                    continue;
                }
                if let Some(want) = exp.outputs.get(p) {
                    let state = if content.is_empty() {
                        "truncated-to-empty"
                    } else if want.starts_with(content) {
                        "proper-prefix"
                    } else {
                        "other-content"
                    };
                    if failure_expected {
                        push(
                            "partial_output",
                            format!("{} left in state {} after a failed run ({})", p, state, describe_diff(content, want)),
                            json!({"state": state, "preexisting": before.is_some()}),
                        );
                    } else {
                        push("wrong_output", format!("{}: {}", p, describe_diff(content, want)), json!({"state": state}));
                    }
                } else {
                    let (cls, what): (&'static str, &str) = if before.is_some() {
                        ("foreign_file_modified", "modified")
                    } else if failure_expected {
                        ("partial_output", "created although no document is due there")
                    } else {
                        ("unexpected_file", "created although no document is due there")
                    };
                    push(
                        cls,
                        format!("{} {} ({} bytes)", p, what, content.len()),
                        json!({"state": "not-an-output", "preexisting": before.is_some()}),
                    );
                }
            }
        }
    }
    for (p, node) in &obs.before {
        if !obs.after.contains_key(p) {
            if let Node::File(_) = node {
                // removing a pre-existing *output* after a failure is tolerated; anything else is not
                if !(failure_expected && exp.outputs.contains_key(p)) && !output_path_of(spec).map(|o| &o == p).unwrap_or(false) {
                    push("foreign_file_removed", format!("{} was removed", p), json!({}));
                }
            }
        }
    }

    if failure_expected {
        if let Some(s) = obs.signal {
            push("killed_by_signal", format!("terminated by signal {}", s), json!({}));
        } else if obs.exit == Some(0) {
            push(
                "exit_zero_on_failure",
                format!(
                    "exit status 0 although the conversion could not succeed ({})",
                    exp.failure.clone().unwrap_or_else(|| hard.join(","))
                ),
                json!({}),
            );
        }
        // diagnostic: something on stderr, or (build) something on stdout beyond progress lines
        let diag_err = obs.stderr.iter().any(|b| !b.is_ascii_whitespace());
        let diag_out = mode == "build"
            && String::from_utf8_lossy(&obs.stdout).lines().any(|l| !l.trim().is_empty() && !l.contains(" => "));
        if !diag_err && !diag_out {
            push("no_diagnostic", "failure without any diagnostic".into(), json!({}));
        }
        // standard output carries at most a prefix of the document (nothing at all unless stdout itself failed)
        if let Mode::Convert(c) = &spec.mode {
            if c.out.is_none() {
                let stdout_faulted = obs.injected.iter().any(|i| i.hard() && i.role == "STDOUT");
                match &exp.stdout {
                    Some(want) => {
                        if !want.starts_with(&obs.stdout) {
                            push("stdout_not_prefix", describe_diff(&obs.stdout, want), json!({}));
                        } else if !stdout_faulted && !obs.stdout.is_empty() && obs.stdout != *want {
                            push("partial_stdout", format!("{} of {} bytes written although stdout did not fail", obs.stdout.len(), want.len()), json!({}));
                        }
                    }
                    None => {
                        if !obs.stdout.is_empty() {
                            push("stdout_on_invalid_request", format!("{} bytes on stdout although no document is due", obs.stdout.len()), json!({}));
                        }
                    }
                }
            }
        }
    } else {
        if let Some(s) = obs.signal {
            push("killed_by_signal", format!("terminated by signal {}", s), json!({}));
        } else if obs.exit != Some(0) {
            push(
                "exit_nonzero_on_success",
                format!(
                    "exit status {:?} although the conversion succeeded; stderr={}",
                    obs.exit,
                    simcommon::preview(&String::from_utf8_lossy(&obs.stderr), 200)
                ),
                json!({"exit": obs.exit}),
            );
        }
        if let Some(want) = &exp.stdout {
            if obs.stdout != *want {
                push("wrong_stdout", describe_diff(&obs.stdout, want), json!({}));
            }
        }
        for (p, want) in &exp.outputs {
            match obs.after.get(p) {
                Some(Node::File(c)) if c == want => {}
                Some(node @ Node::File(c)) => {
                    // a changed file with wrong content was reported above; an
                    // UNCHANGED one (a stale output left in place) is reported here
                    if obs.before.get(p) == Some(node) {
                        push("wrong_output", format!("{}: pre-existing content left in place; {}", p, describe_diff(c, want)), json!({"state": "stale-unchanged"}));
                    }
                }
                _ => push("missing_output", format!("{} was not written", p), json!({})),
            }
        }
    }
    // in both directions: exit 0 => every requested document was delivered completely
    if obs.exit == Some(0) && exp.failure.is_none() {
        let mut undelivered = vec![];
        if let Some(want) = &exp.stdout {
            if obs.stdout != *want {
                undelivered.push("stdout".to_string());
            }
        }
        for (p, want) in &exp.outputs {
            if !matches!(obs.after.get(p), Some(Node::File(c)) if c == want) {
                undelivered.push(p.clone());
            }
        }
        if !undelivered.is_empty() && failure_expected {
            push("exit_zero_undelivered", format!("exit 0 but not delivered: {}", undelivered.join(", ")), json!({}));
        }
    }
    v
}

fn output_path_of(spec: &RunSpec) -> Option<String> {
    match &spec.mode {
        Mode::Convert(c) => c.out.as_ref().map(|o| norm(o)),
        _ => None,
    }
}

/// Two invocations that ran at the same time in one directory: both must have
/// succeeded and delivered exactly their own documents.
pub fn judge_duo(specs: &[RunSpec; 2], obs: &[Observed; 2]) -> Vec<Violation> {
    let mut v = vec![];
    let mut push = |class: &'static str, detail: String| {
        v.push(Violation { class, detail, signature: json!({"mode": "concurrent", "class": class, "output": "files", "fault": "none", "model_failure": "none"}) });
    };
    let exps: Vec<Expect> = (0..2).map(|i| expect_in(&specs[i], &obs[i].before)).collect();
    if exps.iter().any(|e| e.failure.is_some()) {
        return vec![]; // not a well-formed pair (the generator avoids this)
    }
    let mut wanted: BTreeMap<String, Vec<u8>> = BTreeMap::new();
    for e in &exps {
        for (p, d) in &e.outputs {
            wanted.insert(p.clone(), d.clone());
        }
    }
    for i in 0..2 {
        let who = if i == 0 { "first" } else { "second" };
        if obs[i].timed_out {
            push("hang", format!("the {} invocation did not terminate", who));
        }
        if let Some(s) = obs[i].signal {
            push("killed_by_signal", format!("the {} invocation died with signal {}", who, s));
        } else if obs[i].exit != Some(0) {
            push("exit_nonzero_on_success", format!("the {} invocation exited with {:?}: {}", who, obs[i].exit, simcommon::preview(&String::from_utf8_lossy(&obs[i].stderr), 200)));
        }
        if let Some(want) = &exps[i].stdout {
            if obs[i].stdout != *want {
                push("wrong_stdout", format!("{} invocation: {}", who, describe_diff(&obs[i].stdout, want)));
            }
        }
    }
    let after = &obs[0].after;
    for (p, want) in &wanted {
        match after.get(p) {
            Some(Node::File(c)) if c == want => {}
            Some(Node::File(c)) => {
                let whose = wanted.iter().find(|(q, d)| *q != p && d.as_slice() == c.as_slice()).map(|(q, _)| format!(" (it holds the document meant for {})", q)).unwrap_or_default();
                push("wrong_output", format!("{}{}: {}", p, whose, describe_diff(c, want)));
            }
            _ => push("missing_output", format!("{} was not written", p)),
        }
    }
    for (p, node) in after {
        if obs[0].before.get(p) == Some(node) || wanted.contains_key(p) {
            continue;
        }
        if let Node::File(c) = node {
            push("unexpected_file", format!("{} left behind ({} bytes)", p, c.len()));
        }
    }
    v
}
