//! Writing /verif/evidence/<id>.json (schema: EVIDENCE.schema.json).

use serde_json::{json, Map, Value};

pub struct Evidence {
    pub property_id: String,
    pub tier: String,
    pub seed: u64,
    pub level: String,
    pub coverage: Map<String, Value>,
    pub assumptions: Vec<String>,
    pub wall_s: f64,
    pub violations: u64,
    pub extra: Map<String, Value>,
}

impl Evidence {
    pub fn new(property_id: &str, tier: &str, seed: u64, level: &str) -> Self {
        Evidence {
            property_id: property_id.into(),
            tier: if tier == "thorough" { "thorough".into() } else { "quick".into() },
            seed,
            level: level.into(),
            coverage: Map::new(),
            assumptions: vec![],
            wall_s: 0.0,
            violations: 0,
            extra: Map::new(),
        }
    }
    pub fn cov(&mut self, k: &str, v: Value) {
        self.coverage.insert(k.to_string(), v);
    }
    pub fn to_value(&self) -> Value {
        let mut m = Map::new();
        m.insert("property_id".into(), json!(self.property_id));
        m.insert("tier".into(), json!(self.tier));
        // the schema wants an integer; keep it in the signed 63-bit range
        m.insert("seed".into(), json!((self.seed & 0x7fff_ffff_ffff_ffff) as i64));
        m.insert("level".into(), json!(self.level));
        m.insert("coverage".into(), Value::Object(self.coverage.clone()));
        m.insert("assumptions".into(), json!(self.assumptions));
        m.insert("wall_s".into(), json!((self.wall_s * 1000.0).round() / 1000.0));
        m.insert("violations".into(), json!(self.violations));
        for (k, v) in &self.extra {
            m.insert(k.clone(), v.clone());
        }
        Value::Object(m)
    }
    pub fn write(&self) {
        let dir = format!("{}/evidence", crate::verif_dir());
        let _ = std::fs::create_dir_all(&dir);
        let path = format!("{}/{}.json", dir, self.property_id);
        let txt = serde_json::to_string_pretty(&self.to_value()).unwrap();
        let tmp = format!("{}.tmp", path);
        if std::fs::write(&tmp, txt + "\n").and_then(|_| std::fs::rename(&tmp, &path)).is_err() {
            crate::harness_error(&format!("cannot write {}", path));
        }
    }
}
