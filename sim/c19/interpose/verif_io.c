/*
 * libverif_io.so — the I/O seam of the C19 simulator.
 *
 * Loaded with LD_PRELOAD into the real svgbob_cli binary. Every libc call the
 * CLI makes to the outside world (open/read/write/close/mkdir/opendir/readdir/
 * getrandom) passes through here; the simulator programs it with a fault plan
 * (env VERIF_FAULTS) and gets back an event log (file named by env VERIF_LOG)
 * that lists every call with its real or injected result.
 *
 * Plan items, separated by ';':
 *   n:<call>:<role>:<nth>:short:<bytes>   nth call of (call,role) transfers at most <bytes>
 *   n:<call>:<role>:<nth>:eintr           nth call fails with EINTR (nothing transferred)
 *   n:<call>:<role>:<nth>:err:<errno>     nth call fails with <errno>
 *   budget:<call>:<role>:<bytes>:<errno>  after <bytes> bytes in total, calls fail with <errno>
 *                                         (the call crossing the limit is a genuine short transfer)
 *   all:<call>:<role>:<errno>             every call of (call,role) fails with <errno>
 *   chunk:<call>:<role>:<bytes>           every call transfers at most <bytes>
 *   eintr_every:<call>:<role>:<period>    every <period>-th call (period>=2) fails with EINTR
 *   dirshuffle:<seed>                     readdir order = entries sorted by name, shuffled by seed
 *   rand:<seed>                           getrandom() stream
 *   tty:<role>                            isatty() answers yes for STDIN/STDOUT/STDERR
 *   clock:<seconds>                       wall clock and monotonic clock shifted by this offset
 *
 * Turnstile (env VERIF_TURN_REQ / VERIF_TURN_GO = paths of two fifos): before every
 * tracked call the process announces itself on REQ and waits for one byte on GO.
 * The simulator releases one process at a time, so the interleaving of several
 * CLI processes working in one directory is decided by its seed and replayable.
 * calls: open read write mkdir opendir     roles: STDIN STDOUT STDERR INPUT OUTPUT DIR ANY
 *
 * Only descriptors 0,1,2 and files opened through RELATIVE paths are tracked;
 * everything else (ld.so, /proc, ...) is passed through untouched and unlogged.
 * The log is written with raw syscalls so it never re-enters this library.
 */
#define _GNU_SOURCE
#include <dirent.h>
#include <dlfcn.h>
#include <errno.h>
#include <fcntl.h>
#include <stdarg.h>
#include <stdio.h>
#include <stdlib.h>
#include <string.h>
#include <sys/stat.h>
#include <sys/syscall.h>
#include <sys/types.h>
#include <sys/uio.h>
#include <unistd.h>

enum { R_OTHER, R_STDIN, R_STDOUT, R_STDERR, R_INPUT, R_OUTPUT, R_DIR, R_ANY, R_N };
static const char *role_name[R_N] = {"OTHER", "STDIN", "STDOUT", "STDERR", "INPUT", "OUTPUT", "DIR", "ANY"};
enum { C_OPEN, C_READ, C_WRITE, C_MKDIR, C_OPENDIR, C_N };
static const char *call_name[C_N] = {"open", "read", "write", "mkdir", "opendir"};
enum { A_SHORT, A_EINTR, A_ERR };

#define MAXFD 4096
static unsigned char fd_role[MAXFD];
static int log_fd = -1;
static int inited = 0;
static long counter[C_N][R_N];      /* calls seen per (call, role) */
static long long bytes_done[C_N][R_N]; /* bytes transferred per (call, role) */

struct nth_item { int call, role; long nth; int action; long arg; int used; };
struct role_item { int call, role; long val; long err; int on; };
#define MAXITEMS 64
static struct nth_item nth_items[MAXITEMS];
static int n_nth = 0;
static struct role_item budgets[MAXITEMS];
static int n_budget = 0;
static struct role_item chunks[MAXITEMS];
static int n_chunk = 0;
static struct role_item eintrs[MAXITEMS];
static int n_eintr = 0;
static struct role_item alls[MAXITEMS];
static int n_all = 0;
static int dirshuffle_on = 0;
static unsigned long long dirshuffle_seed = 0;
static unsigned long long rand_state = 0x1234567;
static int rand_on = 0;
static int tty_role[R_N];
static int turn_req = -1, turn_go = -1;
static long long clock_offset = 0;

static void logf_(const char *fmt, ...) {
    if (log_fd < 0) return;
    char buf[1024];
    va_list ap;
    va_start(ap, fmt);
    int n = vsnprintf(buf, sizeof buf - 1, fmt, ap);
    va_end(ap);
    if (n < 0) return;
    if (n > (int)sizeof buf - 2) n = sizeof buf - 2;
    buf[n++] = '\n';
    int saved = errno;
    long off = 0;
    while (off < n) {
        long r = syscall(SYS_write, log_fd, buf + off, (size_t)(n - off));
        if (r <= 0) break;
        off += r;
    }
    errno = saved;
}

static unsigned long long splitmix(unsigned long long *s) {
    unsigned long long z = (*s += 0x9E3779B97F4A7C15ULL);
    z = (z ^ (z >> 30)) * 0xBF58476D1CE4E5B9ULL;
    z = (z ^ (z >> 27)) * 0x94D049BB133111EBULL;
    return z ^ (z >> 31);
}

static int parse_role(const char *s) {
    for (int i = 0; i < R_N; i++) if (!strcmp(s, role_name[i])) return i;
    return -1;
}
static int parse_call(const char *s) {
    for (int i = 0; i < C_N; i++) if (!strcmp(s, call_name[i])) return i;
    return -1;
}

static void parse_item(char *item) {
    char *f[8]; int nf = 0;
    char *p = item;
    while (nf < 8) {
        f[nf++] = p;
        char *c = strchr(p, ':');
        if (!c) break;
        *c = 0; p = c + 1;
    }
    if (nf == 0 || !*f[0]) return;
    if (!strcmp(f[0], "n") && nf >= 5) {
        struct nth_item it; memset(&it, 0, sizeof it);
        it.call = parse_call(f[1]); it.role = parse_role(f[2]); it.nth = atol(f[3]);
        if (!strcmp(f[4], "short")) { it.action = A_SHORT; it.arg = nf > 5 ? atol(f[5]) : 1; }
        else if (!strcmp(f[4], "eintr")) { it.action = A_EINTR; }
        else if (!strcmp(f[4], "err")) { it.action = A_ERR; it.arg = nf > 5 ? atol(f[5]) : EIO; }
        else { logf_("X bad-action %s", f[4]); return; }
        if (it.call < 0 || it.role < 0 || n_nth >= MAXITEMS) { logf_("X bad-item"); return; }
        nth_items[n_nth++] = it;
    } else if ((!strcmp(f[0], "budget") && nf >= 5) || (!strcmp(f[0], "chunk") && nf >= 4) || (!strcmp(f[0], "eintr_every") && nf >= 4)) {
        struct role_item it; memset(&it, 0, sizeof it);
        it.call = parse_call(f[1]); it.role = parse_role(f[2]); it.val = atol(f[3]);
        it.err = nf > 4 ? atol(f[4]) : 0; it.on = 1;
        if (it.call < 0 || it.role < 0) { logf_("X bad-item"); return; }
        if (!strcmp(f[0], "budget") && n_budget < MAXITEMS) budgets[n_budget++] = it;
        else if (!strcmp(f[0], "chunk") && n_chunk < MAXITEMS) { if (it.val < 1) it.val = 1; chunks[n_chunk++] = it; }
        else if (!strcmp(f[0], "eintr_every") && n_eintr < MAXITEMS) { if (it.val < 2) it.val = 2; eintrs[n_eintr++] = it; }
    } else if (!strcmp(f[0], "all") && nf >= 4) {
        struct role_item it; memset(&it, 0, sizeof it);
        it.call = parse_call(f[1]); it.role = parse_role(f[2]); it.err = atol(f[3]); it.on = 1;
        if (it.call < 0 || it.role < 0 || n_all >= MAXITEMS) { logf_("X bad-item"); return; }
        alls[n_all++] = it;
    } else if (!strcmp(f[0], "dirshuffle") && nf >= 2) {
        dirshuffle_on = 1; dirshuffle_seed = strtoull(f[1], 0, 10);
    } else if (!strcmp(f[0], "tty") && nf >= 2) {
        int r = parse_role(f[1]);
        if (r >= 0) tty_role[r] = 1;
    } else if (!strcmp(f[0], "clock") && nf >= 2) {
        clock_offset = strtoll(f[1], 0, 10);
    } else if (!strcmp(f[0], "rand") && nf >= 2) {
        rand_on = 1; rand_state = strtoull(f[1], 0, 10);
    } else {
        logf_("X bad-item %s", f[0]);
    }
}

static void init(void) {
    if (inited) return;
    inited = 1;
    fd_role[0] = R_STDIN; fd_role[1] = R_STDOUT; fd_role[2] = R_STDERR;
    const char *lp = getenv("VERIF_LOG");
    if (lp && *lp) {
        long fd = syscall(SYS_openat, AT_FDCWD, lp, O_WRONLY | O_CREAT | O_APPEND | O_CLOEXEC, 0644);
        if (fd >= 0) {
            /* move it out of the way of the low descriptors the CLI will get */
            long hi = syscall(SYS_fcntl, fd, F_DUPFD_CLOEXEC, 1000);
            if (hi >= 0) { syscall(SYS_close, fd); fd = hi; }
            log_fd = (int)fd;
        }
    }
    logf_("H verif_io 1");
    {
        const char *rq = getenv("VERIF_TURN_REQ"), *go = getenv("VERIF_TURN_GO");
        if (rq && go && *rq && *go) {
            long a = syscall(SYS_openat, AT_FDCWD, rq, O_WRONLY | O_CLOEXEC, 0);
            long b = syscall(SYS_openat, AT_FDCWD, go, O_RDONLY | O_CLOEXEC, 0);
            if (a >= 0 && b >= 0) {
                long ha = syscall(SYS_fcntl, a, F_DUPFD_CLOEXEC, 1010), hb = syscall(SYS_fcntl, b, F_DUPFD_CLOEXEC, 1011);
                if (ha >= 0) { syscall(SYS_close, a); a = ha; }
                if (hb >= 0) { syscall(SYS_close, b); b = hb; }
                turn_req = (int)a; turn_go = (int)b;
            }
        }
    }
    const char *plan = getenv("VERIF_FAULTS");
    if (plan && *plan) {
        char *copy = strdup(plan);
        char *p = copy;
        while (p && *p) {
            char *semi = strchr(p, ';');
            if (semi) *semi = 0;
            parse_item(p);
            p = semi ? semi + 1 : 0;
        }
        free(copy);
    }
}

__attribute__((constructor)) static void ctor(void) { init(); }

/* wait for the simulator's permission to perform the next tracked call */
static void turnstile(void) {
    if (turn_req < 0) return;
    int saved = errno;
    char c = 'r';
    if (syscall(SYS_write, turn_req, &c, 1) == 1) {
        long r;
        do { r = syscall(SYS_read, turn_go, &c, 1); } while (r < 0 && errno == EINTR);
    }
    errno = saved;
}

__attribute__((destructor)) static void dtor(void) {
    if (turn_req >= 0) { char c = 'x'; syscall(SYS_write, turn_req, &c, 1); }
}

static int role_of_fd(int fd) {
    if (fd < 0 || fd >= MAXFD) return R_OTHER;
    return fd_role[fd];
}

/* Decide what happens to the nth call of (call, role) that wants to move `want` bytes.
 * Returns: 0 = proceed with *allow bytes (maybe shortened); -1 = fail with errno set. */
static int decide(int call, int role, size_t want, size_t *allow) {
    turnstile();
    long nth = ++counter[call][role];
    *allow = want;
    for (int i = 0; i < n_nth; i++) {
        struct nth_item *it = &nth_items[i];
        if (it->used || it->call != call || (it->role != role && it->role != R_ANY) || it->nth != nth) continue;
        it->used = 1;
        if (it->action == A_EINTR) { logf_("I eintr %s %s %ld", call_name[call], role_name[role], nth); errno = EINTR; return -1; }
        if (it->action == A_ERR) { logf_("I err %s %s %ld errno=%ld", call_name[call], role_name[role], nth, it->arg); errno = (int)it->arg; return -1; }
        if (it->action == A_SHORT && want > 1) {
            size_t lim = it->arg < 1 ? 1 : (size_t)it->arg;
            if (lim < *allow) { *allow = lim; logf_("I short %s %s %ld %zu->%zu", call_name[call], role_name[role], nth, want, lim); }
        }
    }
    for (int i = 0; i < n_all; i++) {
        struct role_item *it = &alls[i];
        if (it->call == call && (it->role == role || it->role == R_ANY)) {
            logf_("I err %s %s %ld errno=%ld", call_name[call], role_name[role], nth, it->err);
            errno = (int)it->err; return -1;
        }
    }
    for (int i = 0; i < n_eintr; i++) {
        struct role_item *it = &eintrs[i];
        if (it->call == call && (it->role == role || it->role == R_ANY) && nth % it->val == 0) {
            logf_("I eintr %s %s %ld", call_name[call], role_name[role], nth);
            errno = EINTR; return -1;
        }
    }
    if (call == C_READ || call == C_WRITE) {
        for (int i = 0; i < n_chunk; i++) {
            struct role_item *it = &chunks[i];
            if (it->call == call && (it->role == role || it->role == R_ANY) && (size_t)it->val < *allow) {
                logf_("I chunk %s %s %ld %zu->%ld", call_name[call], role_name[role], nth, *allow, it->val);
                *allow = (size_t)it->val;
            }
        }
        for (int i = 0; i < n_budget; i++) {
            struct role_item *it = &budgets[i];
            if (it->call != call || (it->role != role && it->role != R_ANY)) continue;
            long long left = it->val - bytes_done[call][role];
            if (left <= 0 && want > 0) {
                logf_("I budget-err %s %s %ld errno=%ld done=%lld", call_name[call], role_name[role], nth, it->err, bytes_done[call][role]);
                errno = (int)it->err; return -1;
            }
            if ((long long)*allow > left) {
                logf_("I budget-short %s %s %ld %zu->%lld", call_name[call], role_name[role], nth, *allow, left);
                *allow = (size_t)left;
            }
        }
    }
    return 0;
}

static int tracked_path(const char *path) { return path && path[0] != '/' && path[0] != 0; }

static int do_open(const char *fn, int dirfd, const char *path, int flags, mode_t mode) {
    init();
    int role = R_OTHER;
    if (dirfd == AT_FDCWD && tracked_path(path)) {
        if (flags & O_DIRECTORY) role = R_DIR;
        else if ((flags & O_ACCMODE) == O_RDONLY) role = R_INPUT;
        else role = R_OUTPUT;
    }
    if (role == R_OTHER) return (int)syscall(SYS_openat, dirfd, path, flags, mode);
    size_t allow;
    if (decide(C_OPEN, role, 0, &allow) < 0) {
        int e = errno;
        logf_("E %s %s %ld path=%s flags=%#x -> -1 errno=%d INJ", fn, role_name[role], counter[C_OPEN][role], path, flags & ~O_CLOEXEC, e);
        errno = e; return -1;
    }
    long fd = syscall(SYS_openat, dirfd, path, flags, mode);
    int e = errno;
    if (fd >= 0 && fd < MAXFD) fd_role[fd] = (unsigned char)role;
    logf_("E %s %s %ld path=%s flags=%#x -> %s errno=%d", fn, role_name[role], counter[C_OPEN][role], path, flags & ~O_CLOEXEC, fd >= 0 ? "fd" : "-1", fd >= 0 ? 0 : e);
    errno = e;
    return (int)fd;
}

int open(const char *path, int flags, ...) {
    mode_t mode = 0;
    if (flags & (O_CREAT | __O_TMPFILE)) { va_list ap; va_start(ap, flags); mode = va_arg(ap, mode_t); va_end(ap); }
    return do_open("open", AT_FDCWD, path, flags, mode);
}
int open64(const char *path, int flags, ...) {
    mode_t mode = 0;
    if (flags & (O_CREAT | __O_TMPFILE)) { va_list ap; va_start(ap, flags); mode = va_arg(ap, mode_t); va_end(ap); }
    return do_open("open", AT_FDCWD, path, flags | O_LARGEFILE, mode);
}
int openat(int dirfd, const char *path, int flags, ...) {
    mode_t mode = 0;
    if (flags & (O_CREAT | __O_TMPFILE)) { va_list ap; va_start(ap, flags); mode = va_arg(ap, mode_t); va_end(ap); }
    return do_open("open", dirfd, path, flags, mode);
}
int openat64(int dirfd, const char *path, int flags, ...) {
    mode_t mode = 0;
    if (flags & (O_CREAT | __O_TMPFILE)) { va_list ap; va_start(ap, flags); mode = va_arg(ap, mode_t); va_end(ap); }
    return do_open("open", dirfd, path, flags | O_LARGEFILE, mode);
}
int creat(const char *path, mode_t mode) { return do_open("open", AT_FDCWD, path, O_CREAT | O_WRONLY | O_TRUNC, mode); }
int creat64(const char *path, mode_t mode) { return do_open("open", AT_FDCWD, path, O_CREAT | O_WRONLY | O_TRUNC | O_LARGEFILE, mode); }

ssize_t read(int fd, void *buf, size_t n) {
    init();
    int role = role_of_fd(fd);
    if (role == R_OTHER) return syscall(SYS_read, fd, buf, n);
    size_t allow;
    if (decide(C_READ, role, n, &allow) < 0) {
        int e = errno;
        logf_("E read %s %ld n=%zu -> -1 errno=%d INJ", role_name[role], counter[C_READ][role], n, e);
        errno = e; return -1;
    }
    long r = syscall(SYS_read, fd, buf, allow);
    int e = errno;
    if (r > 0) bytes_done[C_READ][role] += r;
    logf_("E read %s %ld n=%zu allow=%zu -> %ld errno=%d", role_name[role], counter[C_READ][role], n, allow, r, r < 0 ? e : 0);
    errno = e;
    return r;
}

ssize_t write(int fd, const void *buf, size_t n) {
    init();
    int role = role_of_fd(fd);
    if (role == R_OTHER) return syscall(SYS_write, fd, buf, n);
    if (role == R_STDERR) {
        /* diagnostics are never faulted; logged without content */
        long r = syscall(SYS_write, fd, buf, n);
        int e = errno;
        counter[C_WRITE][role]++;
        logf_("E write STDERR %ld -> %s", counter[C_WRITE][role], r >= 0 ? "ok" : "-1"); /* sizes omitted: panic messages carry a thread id */
        errno = e; return r;
    }
    size_t allow;
    if (decide(C_WRITE, role, n, &allow) < 0) {
        int e = errno;
        logf_("E write %s %ld n=%zu -> -1 errno=%d INJ", role_name[role], counter[C_WRITE][role], n, e);
        errno = e; return -1;
    }
    long r = syscall(SYS_write, fd, buf, allow);
    int e = errno;
    if (r > 0) bytes_done[C_WRITE][role] += r;
    logf_("E write %s %ld n=%zu allow=%zu -> %ld errno=%d", role_name[role], counter[C_WRITE][role], n, allow, r, r < 0 ? e : 0);
    errno = e;
    return r;
}

ssize_t writev(int fd, const struct iovec *iov, int iovcnt) {
    init();
    int role = role_of_fd(fd);
    if (role == R_OTHER) return syscall(SYS_writev, fd, iov, iovcnt);
    /* degrade to a write of the first non-empty buffer: a legal short writev */
    for (int i = 0; i < iovcnt; i++)
        if (iov[i].iov_len > 0) return write(fd, iov[i].iov_base, iov[i].iov_len);
    return 0;
}

ssize_t readv(int fd, const struct iovec *iov, int iovcnt) {
    init();
    int role = role_of_fd(fd);
    if (role == R_OTHER) return syscall(SYS_readv, fd, iov, iovcnt);
    for (int i = 0; i < iovcnt; i++)
        if (iov[i].iov_len > 0) return read(fd, iov[i].iov_base, iov[i].iov_len);
    return 0;
}

int close(int fd) {
    init();
    if (fd == log_fd || (fd >= 0 && (fd == turn_req || fd == turn_go))) { errno = EBADF; return -1; }
    int role = role_of_fd(fd);
    if (role != R_OTHER && fd != turn_req && fd != turn_go) turnstile();
    long r = syscall(SYS_close, fd);
    int e = errno;
    if (role != R_OTHER) {
        logf_("E close %s -> %ld", role_name[role], r);
        if (fd > 2 && fd < MAXFD) fd_role[fd] = R_OTHER;
    }
    errno = e;
    return (int)r;
}

int mkdir(const char *path, mode_t mode) {
    init();
    if (!tracked_path(path)) return (int)syscall(SYS_mkdirat, AT_FDCWD, path, mode);
    size_t allow;
    if (decide(C_MKDIR, R_DIR, 0, &allow) < 0) {
        int e = errno;
        logf_("E mkdir DIR %ld path=%s -> -1 errno=%d INJ", counter[C_MKDIR][R_DIR], path, e);
        errno = e; return -1;
    }
    long r = syscall(SYS_mkdirat, AT_FDCWD, path, mode);
    int e = errno;
    logf_("E mkdir DIR %ld path=%s -> %ld errno=%d", counter[C_MKDIR][R_DIR], path, r, r < 0 ? e : 0);
    errno = e;
    return (int)r;
}

/* ---- directory listing: sorted by name, then shuffled by the plan's seed ---- */
struct dirstate { DIR *d; struct dirent64 *ents; int n, pos; };
#define MAXDIRS 16
static struct dirstate dirs[MAXDIRS];

static int cmp_ent(const void *a, const void *b) {
    return strcmp(((const struct dirent64 *)a)->d_name, ((const struct dirent64 *)b)->d_name);
}

DIR *opendir(const char *path) {
    init();
    static DIR *(*real)(const char *) = 0;
    if (!real) real = (DIR * (*)(const char *)) dlsym(RTLD_NEXT, "opendir");
    if (!tracked_path(path)) return real(path);
    size_t allow;
    if (decide(C_OPENDIR, R_DIR, 0, &allow) < 0) {
        int e = errno;
        logf_("E opendir DIR %ld path=%s -> NULL errno=%d INJ", counter[C_OPENDIR][R_DIR], path, e);
        errno = e; return 0;
    }
    DIR *d = real(path);
    int e = errno;
    logf_("E opendir DIR %ld path=%s -> %s errno=%d", counter[C_OPENDIR][R_DIR], path, d ? "ok" : "NULL", d ? 0 : e);
    if (d) {
        for (int i = 0; i < MAXDIRS; i++) if (!dirs[i].d) { dirs[i].d = d; dirs[i].ents = 0; dirs[i].n = -1; dirs[i].pos = 0; break; }
    }
    errno = e;
    return d;
}

static struct dirstate *find_dir(DIR *d) {
    for (int i = 0; i < MAXDIRS; i++) if (dirs[i].d == d) return &dirs[i];
    return 0;
}

struct dirent64 *readdir64(DIR *d) {
    init();
    static struct dirent64 *(*real)(DIR *) = 0;
    if (!real) real = (struct dirent64 * (*)(DIR *)) dlsym(RTLD_NEXT, "readdir64");
    struct dirstate *st = find_dir(d);
    if (!st) return real(d);
    if (st->n < 0) {
        int cap = 64; st->ents = malloc(cap * sizeof *st->ents); st->n = 0;
        struct dirent64 *e;
        errno = 0;
        while ((e = real(d)) != 0) {
            if (st->n == cap) { cap *= 2; st->ents = realloc(st->ents, cap * sizeof *st->ents); }
            st->ents[st->n++] = *e;
        }
        qsort(st->ents, st->n, sizeof *st->ents, cmp_ent);
        if (dirshuffle_on) {
            unsigned long long s = dirshuffle_seed;
            for (int i = st->n - 1; i > 0; i--) {
                int j = (int)(splitmix(&s) % (unsigned)(i + 1));
                struct dirent64 t = st->ents[i]; st->ents[i] = st->ents[j]; st->ents[j] = t;
            }
            logf_("I dirshuffle readdir DIR 1 n=%d", st->n);
        }
    }
    if (st->pos >= st->n) { logf_("E readdir DIR -> end"); errno = 0; return 0; }
    struct dirent64 *r = &st->ents[st->pos++];
    logf_("E readdir DIR -> %s", r->d_name);
    return r;
}

struct dirent *readdir(DIR *d) { return (struct dirent *)readdir64(d); }

int closedir(DIR *d) {
    init();
    static int (*real)(DIR *) = 0;
    if (!real) real = (int (*)(DIR *))dlsym(RTLD_NEXT, "closedir");
    struct dirstate *st = find_dir(d);
    if (st) { free(st->ents); st->ents = 0; st->d = 0; logf_("E closedir DIR"); }
    return real(d);
}

ssize_t getrandom(void *buf, size_t len, unsigned int flags) {
    init();
    if (!rand_on) return syscall(SYS_getrandom, buf, len, flags);
    unsigned char *p = buf;
    for (size_t i = 0; i < len; i += 8) {
        unsigned long long x = splitmix(&rand_state);
        size_t k = len - i < 8 ? len - i : 8;
        memcpy(p + i, &x, k);
    }
    logf_("E getrandom len=%zu", len);
    return (ssize_t)len;
}

/* ---- ambient conditions the contract does not depend on: terminal or not, what time it is ---- */
int isatty(int fd) {
    init();
    int role = role_of_fd(fd);
    if (role >= 0 && role < R_N && tty_role[role]) { logf_("E isatty %s -> 1 INJ", role_name[role]); return 1; }
    static int (*real)(int) = 0;
    if (!real) real = (int (*)(int))dlsym(RTLD_NEXT, "isatty");
    return real(fd);
}

#include <time.h>
#include <sys/time.h>
int clock_gettime(clockid_t id, struct timespec *ts) {
    long r = syscall(SYS_clock_gettime, id, ts);
    if (r == 0 && ts && clock_offset) ts->tv_sec += clock_offset;
    return (int)r;
}
int gettimeofday(struct timeval *tv, void *tz) {
    long r = syscall(SYS_gettimeofday, tv, tz);
    if (r == 0 && tv && clock_offset) tv->tv_sec += clock_offset;
    return (int)r;
}
time_t time(time_t *t) {
    struct timespec ts;
    syscall(SYS_clock_gettime, CLOCK_REALTIME, &ts);
    time_t v = ts.tv_sec + clock_offset;
    if (t) *t = v;
    return v;
}
