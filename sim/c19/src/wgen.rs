//! Workload and fault-plan generation for the CLI simulator.

use crate::exec::Call;
use crate::spec::*;
use simcommon::gen::{self, GenMask, Pool};
use simcommon::Rng;

const STR_OPTS: &[&str] = &["background", "fill-color", "font-family", "stroke-color"];
const FONT_SIZES: &[&str] = &["8", "12", "14", "24", "100", "1", "007", "+5", "0"];
const STROKE_WIDTHS: &[&str] = &["1", "2", "2.5", "0.5", "3", "1e0", ".5", "4."];
const SCALES: &[&str] = &["1", "0.5", "2", "1.5", "3", "10", "0.25", "1e1", "1.0", "4"];
const BAD_NUMS: &[&str] = &["abc", "", "1,5", "0x10", "1.5.2", "twelve", " 3", "1e", "--"];
const FILE_NAMES: &[&str] = &["in.bob", "diagram.txt", "a b.bob", "ünï.bob", "noext", "sub/x.bob", "UPPER.BOB", "d.e.f"];
const OUT_NAMES: &[&str] = &["out.svg", "o u t.svg", "result", "ünï.svg", "x.svg.tmp"];
const STEMS: &[&str] = &["a", "b", "diagram", "x.y", "ünï", "with space", "UPPER", "z9", "long_name-1"];
const EXTS: &[&str] = &["bob", "bob", "bob", "bob", "txt", "BOB", "svg", "md"];
const DIRS: &[&str] = &["src", "in dir", "ünï", "d1/d2", "my.dir", "v1.2/docs"];

fn invalid_utf8(rng: &mut Rng, base: &str) -> Vec<u8> {
    let mut b = base.as_bytes().to_vec();
    let bad: &[&[u8]] = &[&[0xff], &[0xc3, 0x28], &[0xe2, 0x82], &[0xf0, 0x9f, 0x98], &[0x80]];
    let ins = rng.pick(bad);
    let at = if b.is_empty() { 0 } else { rng.usize_below(b.len() + 1) };
    // keep char boundaries of the valid part irrelevant: any insertion of these makes it invalid
    for (k, x) in ins.iter().enumerate() {
        b.insert(at + k, *x);
    }
    if String::from_utf8(b.clone()).is_ok() {
        b.push(0xff);
    }
    b
}

fn option_value(rng: &mut Rng, name: &str) -> String {
    match name {
        "font-size" => {
            if rng.chance(1, 25) {
                rng.pick(BAD_NUMS).to_string()
            } else if rng.chance(1, 12) {
                "2.5".to_string() // a float is not a font size
            } else {
                rng.pick(FONT_SIZES).to_string()
            }
        }
        "stroke-width" => {
            if rng.chance(1, 25) {
                rng.pick(BAD_NUMS).to_string()
            } else {
                rng.pick(STROKE_WIDTHS).to_string()
            }
        }
        "scale" => {
            if rng.chance(1, 25) {
                rng.pick(BAD_NUMS).to_string()
            } else {
                rng.pick(SCALES).to_string()
            }
        }
        "font-family" => {
            if rng.chance(1, 8) {
                rng.pick(gen::HOSTILE).replace(['\r', '\n'], " ")
            } else {
                rng.pick(gen::FONTS).to_string()
            }
        }
        _ => {
            if rng.chance(1, 10) {
                rng.pick(gen::HOSTILE).replace(['\r', '\n'], " ")
            } else {
                rng.pick(gen::COLORS).to_string()
            }
        }
    }
}

/// Values are passed on verbatim: surrounding blanks, quotes, case belong to them.
fn decorate(rng: &mut Rng, v: String) -> String {
    match rng.below(24) {
        0 => format!(" {}", v),
        1 => format!("{} ", v),
        2 => format!("\t{}", v),
        3 => format!("'{}'", v),
        4 => v.to_uppercase(),
        5 => format!("{};x:y", v),
        _ => v,
    }
}

pub fn gen_convert(rng: &mut Rng, pool: &Pool, mask: GenMask) -> RunSpec {
    let (mut text, _g) = gen::gen_input(rng, pool, mask);
    if rng.chance(1, 30) {
        text = rng.pick(gen::HOSTILE).to_string();
    }
    text = text.replace('\0', "");
    if rng.chance(1, 250) {
        // very large inputs (cheap to convert: blank lines, the drawing at the very
        // end): whatever limit or chunking there is must not cut them silently
        let mib = *rng.pick(&[1usize, 2, 4, 8, 16]);
        let size = mib * 1024 * 1024 + *rng.pick(&[0usize, 1, 4096]);
        let tail = text.clone();
        let mut big = String::with_capacity(size + tail.len() + 2);
        while big.len() < size {
            big.push('\n');
        }
        big.push_str(&tail);
        text = big;
    } else if rng.chance(1, 25) {
        // sit exactly on (or next to) a buffer boundary
        let base = *rng.pick(&[8192usize, 16384, 32768, 65536]);
        let size = (base as i64 + *rng.pick(&[-1i64, 0, 1])) as usize;
        if text.len() < size {
            text = gen::pad_to(&text, size);
        }
    }
    let mut dirs: Vec<String> = vec![];
    let mut files: Vec<(String, Vec<u8>)> = vec![];
    let mut stdin = None;
    let mut stdin_pipe = false;
    let mut fifos: Vec<(String, Vec<u8>)> = vec![];
    let input = match rng.weighted(&[45, 25, 30]) {
        0 => {
            let name = rng.pick(FILE_NAMES).to_string();
            match rng.below(40) {
                // the file argument is a named pipe (process substitution, mkfifo): readable, size unknown
                3 | 4 => fifos.push((name.clone(), text.clone().into_bytes())),
                0 => {} // missing input file
                1 => files.push((name.clone(), invalid_utf8(rng, &text))),
                2 => dirs.push(name.clone()), // a directory where a file is expected
                _ => files.push((name.clone(), text.clone().into_bytes())),
            }
            InputSel::File(name)
        }
        1 => {
            stdin = Some(if rng.chance(1, 30) { invalid_utf8(rng, &text) } else { text.clone().into_bytes() });
            stdin_pipe = rng.chance(1, 2);
            InputSel::Stdin
        }
        _ => {
            // inline: newlines travel as literal backslash-n
            let mut arg = text.replace('\n', "\\n");
            if arg.len() > 60_000 {
                arg.truncate(arg.char_indices().take_while(|(i, _)| *i < 60_000).count());
            }
            if arg.is_empty() && rng.chance(1, 2) {
                arg = "+-+\\n| |\\n+-+".to_string();
            }
            InputSel::Inline(arg)
        }
    };
    // something waiting on standard input although the input comes from elsewhere: must be ignored
    if !matches!(input, InputSel::Stdin) && rng.chance(1, 3) {
        stdin = Some(b"+-----+\n| not |\n| me  |\n+-----+\n".to_vec());
    }
    // options
    let mut names: Vec<&str> = STR_OPTS.iter().copied().chain(["font-size", "stroke-width", "scale"]).collect();
    rng.shuffle(&mut names);
    let density = *rng.pick(&[0u64, 15, 30, 50, 100]);
    let mut opts = vec![];
    for n in names {
        if rng.below(100) < density {
            let mut value = option_value(rng, n);
            if STR_OPTS.contains(&n) {
                value = decorate(rng, value);
            }
            let mut eq = rng.chance(1, 3);
            if value.starts_with('-') {
                eq = true; // `--opt -x` is a usage error for clap; `--opt=-x` is well-formed
            }
            if value.is_empty() {
                value = "x".into(); // clap rejects empty values outright; not part of the contract under test
                eq = false;
            }
            opts.push(Opt { name: n.to_string(), value, eq_syntax: eq });
        }
    }
    // output
    let mut out = None;
    if rng.chance(2, 5) {
        let name = rng.pick(OUT_NAMES).to_string();
        out = Some(match rng.below(20) {
            0..=8 => name,
            9..=12 => {
                let stale = if rng.chance(1, 3) {
                    b"<svg>stale previous output that is longer than nothing</svg>\n".to_vec()
                } else if rng.chance(1, 2) {
                    // much larger than any new document: a missing truncate leaves a stale tail
                    let mut v = b"<svg>".to_vec();
                    v.extend(std::iter::repeat(b'x').take(300_000));
                    v.extend_from_slice(b"</svg>\n");
                    v
                } else {
                    let (t, _) = gen::gen_input(rng, pool, mask);
                    t.into_bytes()
                };
                files.push((name.clone(), stale));
                name
            }
            13..=14 => {
                dirs.push("outdir".into());
                format!("outdir/{}", name)
            }
            15 => format!("missing_dir/{}", name),
            16 => {
                dirs.push(name.clone());
                name
            }
            18 if rng.chance(1, 2) => "/dev/null".to_string(),
            18 => "/dev/stdout".to_string(),
            17 => match &input {
                InputSel::File(p) if files.iter().any(|f| &f.0 == p) => p.clone(),
                _ => name,
            },
            _ => format!("./{}", name),
        });
    }
    // usage errors: must end non-zero with a diagnostic and deliver nothing
    let mut extra_args = vec![];
    if rng.chance(1, 40) {
        match rng.below(3) {
            0 if !opts.is_empty() => {
                let mut dup = rng.pick(&opts).clone();
                dup.eq_syntax = false;
                if dup.value.starts_with('-') {
                    dup.eq_syntax = true;
                }
                opts.push(dup);
            }
            1 => extra_args.push(rng.pick(&["--bogus", "--scale-all", "-x", "--outputs=x"]).to_string()),
            _ => {
                if !matches!(input, InputSel::Stdin) {
                    extra_args.push("surplus.bob".to_string());
                } else {
                    extra_args.push("--bogus".to_string());
                }
            }
        }
    }
    let n_groups = opts.len() + out.is_some() as usize;
    RunSpec {
        mode: Mode::Convert(Convert {
            input,
            opts,
            out,
            out_long: rng.chance(1, 3),
            positional_at: rng.usize_below(n_groups + 1),
            extra_args,
        }),
        dirs,
        files,
        stdin,
        stdin_pipe,
        fifos,
        faults: vec![],
        rand_seed: rng.next_u64() | 1,
        env: vec![],
        prior: vec![],
    }
}

pub fn gen_build(rng: &mut Rng, pool: &Pool, mask: GenMask) -> RunSpec {
    let mut dirs: Vec<String> = vec![];
    let mut files: Vec<(String, Vec<u8>)> = vec![];
    let in_cwd = rng.chance(1, 4);
    let dir = if in_cwd { String::new() } else { rng.pick(DIRS).to_string() };
    if !dir.is_empty() {
        dirs.push(dir.clone());
    }
    let prefix = if dir.is_empty() { String::new() } else { format!("{}/", dir) };
    let many = rng.chance(1, 15);
    let n = if many { rng.urange(20, 45) } else { rng.usize_below(7) };
    let mut used = std::collections::BTreeSet::new();
    for k in 0..n {
        let name = if many { format!("f{:02}.{}", k, rng.pick(EXTS)) } else { format!("{}.{}", rng.pick(STEMS), rng.pick(EXTS)) };
        if !used.insert(name.clone()) {
            continue;
        }
        let small = GenMask(mask.0 & !gen::G_FILE);
        let (t, _) = gen::gen_input(rng, pool, small);
        let content = if rng.chance(1, 40) { invalid_utf8(rng, &t) } else { t.into_bytes() };
        files.push((format!("{}{}", prefix, name), content));
    }
    if rng.chance(1, 5) {
        // a sub-directory with a diagram that must NOT be converted, and a directory named like a diagram
        files.push((format!("{}nested/inner.bob", prefix), b"+--+\n|  |\n+--+\n".to_vec()));
        if rng.chance(1, 2) {
            dirs.push(format!("{}looks_like.bob", prefix));
        }
    }
    if rng.chance(1, 6) {
        files.push((format!("{}.bob", prefix), b"hidden, no stem\n".to_vec()));
    }
    let pattern = match rng.below(20) {
        0..=8 => Some(format!("{}*.bob", if dir.is_empty() { "./".to_string() } else { prefix.clone() })),
        9..=11 => Some(if dir.is_empty() { ".".to_string() } else { dir.clone() }),
        12..=13 => Some(format!("{}*.txt", if dir.is_empty() { "./".to_string() } else { prefix.clone() })),
        14..=15 => {
            if dir.is_empty() {
                Some("*.bob".to_string())
            } else {
                Some(format!("{}*.bob", prefix))
            }
        }
        16 => {
            if dir.is_empty() {
                None
            } else {
                Some(format!("{}*.bob", prefix))
            }
        }
        17 => Some("missing/*.bob".to_string()),
        _ => Some(format!("{}*.bob", if dir.is_empty() { "./".to_string() } else { prefix.clone() })),
    };
    let outdir = match rng.below(20) {
        0..=7 => None,
        8..=11 => {
            dirs.push("out".into());
            Some("out".to_string())
        }
        12..=14 => Some("newout".to_string()),
        15 => Some("newout/".to_string()),
        16..=17 => Some("new/nested/out".to_string()),
        18 => {
            files.push(("blocked".into(), b"a file where the output directory should go\n".to_vec()));
            Some("blocked".to_string())
        }
        _ => {
            if dir.is_empty() {
                None
            } else {
                Some(dir.clone())
            }
        }
    };
    // stale outputs from an earlier build
    if rng.chance(1, 4) {
        let od = match &outdir {
            Some(o) if o == "out" => "out/".to_string(),
            None => prefix.clone(),
            _ => String::new(),
        };
        if outdir.as_deref() == Some("out") || outdir.is_none() {
            let stale = if rng.chance(1, 2) { b"<svg>stale</svg>".to_vec() } else { vec![b'y'; 200_000] };
            files.push((format!("{}{}.svg", od, rng.pick(STEMS)), stale));
        }
    }
    RunSpec { mode: Mode::Build(Build { pattern, outdir }), dirs, files, stdin: None, stdin_pipe: false, fifos: vec![], faults: vec![], rand_seed: rng.next_u64() | 1, env: vec![], prior: vec![] }
}

fn gen_one(rng: &mut Rng, pool: &Pool) -> RunSpec {
    let mask = GenMask::swarm(rng);
    if rng.chance(1, 4) {
        gen_build(rng, pool, mask)
    } else {
        gen_convert(rng, pool, mask)
    }
}

const ENVS: &[&[(&str, &str)]] = &[
    &[("LANG", "de_DE.UTF-8"), ("LC_ALL", "de_DE.UTF-8"), ("TZ", "Asia/Tokyo")],
    &[("LANG", "C"), ("TERM", "dumb"), ("COLUMNS", "40"), ("NO_COLOR", "1")],
    &[("HOME", "homedir"), ("USER", "nobody"), ("TMPDIR", "."), ("XDG_CACHE_HOME", "cache")],
    &[("TERM", "xterm-256color"), ("COLORTERM", "truecolor"), ("CLICOLOR_FORCE", "1"), ("RUST_LOG", "trace")],
    &[("PATH", "/usr/bin:/bin"), ("PWD", "/nonexistent"), ("SHELL", "/bin/sh")],
];

/// One judged invocation, sometimes under ambient conditions nothing in the
/// contract depends on (environment, terminal or not, what time it is), and
/// sometimes after an earlier invocation in the same directory.
pub fn gen_workload(rng: &mut Rng, pool: &Pool) -> RunSpec {
    let mut spec = gen_one(rng, pool);
    if rng.chance(3, 10) {
        spec.env = rng.pick(ENVS).iter().map(|(k, v)| (k.to_string(), v.to_string())).collect();
    }
    if rng.chance(1, 8) {
        spec.faults.push(format!("tty:{}", rng.pick(&["STDOUT", "STDIN", "STDERR"])));
        if rng.chance(1, 2) {
            spec.faults.push("tty:STDOUT".to_string());
        }
    }
    if rng.chance(1, 7) {
        // a day, a year, decades off; before the epoch of most file systems
        spec.faults.push(format!("clock:{}", rng.pick(&[86_400i64, 31_536_000, 1_000_000_000, -400_000_000, 4_000_000_000])));
    }
    if spec.fifos.is_empty() && rng.chance(1, 10) {
        let mut p = gen_one(rng, pool);
        p.fifos.clear();
        if let Mode::Convert(c) = &mut p.mode {
            if let InputSel::File(name) = &c.input {
                // the earlier run's input must be a plain file (or missing)
                let _ = name;
            }
        }
        if rng.chance(1, 3) {
            p.faults = hard_plan(rng, 1500);
        }
        spec.prior.push(p);
    }
    spec
}

// ---------------------------------------------------------------- faults

pub const ERR_EIO: u32 = 5;
pub const ERR_EACCES: u32 = 13;
pub const ERR_ENOENT: u32 = 2;
pub const ERR_EMFILE: u32 = 24;
pub const ERR_ENOSPC: u32 = 28;
pub const ERR_EROFS: u32 = 30;
pub const ERR_EPIPE: u32 = 32;
pub const ERR_EDQUOT: u32 = 122;

/// Transparent faults: the run must behave exactly as if nothing happened.
pub fn transparent_plan(rng: &mut Rng) -> Vec<String> {
    let mut p = vec![];
    let k = rng.urange(1, 3);
    for _ in 0..k {
        match rng.below(8) {
            0 => p.push(format!("chunk:read:ANY:{}", rng.pick(&[1u32, 2, 3, 7, 64, 1000]))),
            1 => p.push(format!("chunk:write:ANY:{}", rng.pick(&[1u32, 2, 5, 7, 100, 4096]))),
            2 => p.push(format!("eintr_every:read:ANY:{}", rng.urange(2, 5))),
            3 => p.push(format!("eintr_every:write:ANY:{}", rng.urange(2, 5))),
            4 => p.push(format!("dirshuffle:{}", rng.next_u64() >> 1)),
            5 => p.push(format!("n:open:ANY:{}:eintr", rng.urange(1, 3))),
            6 => p.push(format!(
                "n:{}:ANY:{}:short:{}",
                rng.pick(&["read", "write"]),
                rng.urange(1, 4),
                rng.pick(&[1u32, 2, 10, 100])
            )),
            _ => p.push(format!("n:{}:ANY:{}:eintr", rng.pick(&["read", "write"]), rng.urange(1, 4))),
        }
    }
    p
}

/// Hard faults: the affected operation cannot complete.
pub fn hard_plan(rng: &mut Rng, doc_len_hint: u64) -> Vec<String> {
    let mut p = vec![];
    let k = if rng.chance(3, 4) { 1 } else { rng.urange(2, 3) };
    for _ in 0..k {
        match rng.below(10) {
            0 => p.push(format!("n:open:INPUT:{}:err:{}", rng.urange(1, 3), rng.pick(&[ERR_EACCES, ERR_ENOENT, ERR_EMFILE]))),
            1 => p.push(format!("n:read:{}:{}:err:{}", rng.pick(&["INPUT", "STDIN"]), rng.urange(1, 3), ERR_EIO)),
            2 => p.push(format!(
                "n:open:OUTPUT:{}:err:{}",
                rng.urange(1, 3),
                rng.pick(&[ERR_EACCES, ERR_EROFS, ERR_ENOSPC, ERR_EMFILE])
            )),
            3..=5 => {
                let off = match rng.below(5) {
                    0 => 0,
                    1 => 1,
                    2 => doc_len_hint.saturating_sub(1),
                    _ => rng.below(doc_len_hint.max(1)),
                };
                p.push(format!("budget:write:OUTPUT:{}:{}", off, rng.pick(&[ERR_ENOSPC, ERR_EIO, ERR_EDQUOT])));
            }
            6..=7 => {
                let off = match rng.below(5) {
                    0 => 0,
                    1 => 1,
                    2 => doc_len_hint, // everything but the final newline
                    _ => rng.below(doc_len_hint.max(1)),
                };
                p.push(format!("budget:write:STDOUT:{}:{}", off, rng.pick(&[ERR_EPIPE, ERR_ENOSPC, ERR_EIO])));
            }
            8 => p.push(format!("n:mkdir:DIR:1:err:{}", rng.pick(&[ERR_EACCES, ERR_ENOSPC, ERR_EROFS]))),
            _ => p.push(format!("n:write:{}:{}:err:{}", rng.pick(&["OUTPUT", "STDOUT"]), rng.urange(1, 3), rng.pick(&[ERR_EIO, ERR_ENOSPC]))),
        }
    }
    if rng.chance(1, 3) {
        p.extend(transparent_plan(rng));
    }
    p
}

/// Every single-fault placement along a fault-free run (exhaustive over call
/// sites, sampled over byte offsets).
pub fn enumerate_single_faults(calls: &[Call]) -> Vec<Vec<String>> {
    let mut plans: Vec<Vec<String>> = vec![];
    let mut total_out: std::collections::BTreeMap<String, u64> = Default::default();
    let mut first_write: std::collections::BTreeMap<String, u64> = Default::default();
    for c in calls {
        if c.call == "write" && (c.role == "OUTPUT" || c.role == "STDOUT") {
            *total_out.entry(c.role.clone()).or_default() += c.n;
            first_write.entry(c.role.clone()).or_insert(c.n);
        }
    }
    for c in calls {
        let site = format!("{}:{}:{}", c.call, c.role, c.nth);
        match (c.call.as_str(), c.role.as_str()) {
            ("open", "INPUT") => {
                plans.push(vec![format!("n:{}:eintr", site)]);
                for e in [ERR_EACCES, ERR_ENOENT, ERR_EMFILE] {
                    plans.push(vec![format!("n:{}:err:{}", site, e)]);
                }
            }
            ("open", "OUTPUT") => {
                plans.push(vec![format!("n:{}:eintr", site)]);
                for e in [ERR_EACCES, ERR_EROFS, ERR_ENOSPC, ERR_EMFILE] {
                    plans.push(vec![format!("n:{}:err:{}", site, e)]);
                }
            }
            ("read", "INPUT") | ("read", "STDIN") => {
                plans.push(vec![format!("n:{}:eintr", site)]);
                plans.push(vec![format!("n:{}:short:1", site)]);
                if c.n > 4 {
                    plans.push(vec![format!("n:{}:short:{}", site, c.n / 2)]);
                }
                plans.push(vec![format!("n:{}:err:{}", site, ERR_EIO)]);
            }
            ("write", "OUTPUT") | ("write", "STDOUT") => {
                plans.push(vec![format!("n:{}:eintr", site)]);
                plans.push(vec![format!("n:{}:short:1", site)]);
                if c.n > 2 {
                    plans.push(vec![format!("n:{}:short:{}", site, c.n - 1)]);
                }
                for e in [ERR_ENOSPC, ERR_EIO, ERR_EPIPE] {
                    plans.push(vec![format!("n:{}:err:{}", site, e)]);
                }
            }
            ("mkdir", _) => {
                for e in [ERR_EACCES, ERR_ENOSPC] {
                    plans.push(vec![format!("n:{}:err:{}", site, e)]);
                }
            }
            ("opendir", _) => {
                for e in [ERR_EACCES, ERR_EMFILE] {
                    plans.push(vec![format!("n:{}:err:{}", site, e)]);
                }
            }
            _ => {}
        }
    }
    // disk-full / broken pipe after k accepted bytes
    for (role, total) in &total_out {
        let fw = *first_write.get(role).unwrap_or(&0);
        let mut offs = vec![0u64, 1, total / 2, total.saturating_sub(1)];
        if fw > 0 && fw < *total {
            offs.push(fw - 1);
            offs.push(fw);
            offs.push(fw + 1);
        }
        offs.sort();
        offs.dedup();
        for off in offs {
            if off < *total {
                let e = if role == "STDOUT" { ERR_EPIPE } else { ERR_ENOSPC };
                plans.push(vec![format!("budget:write:{}:{}:{}", role, off, e)]);
            }
        }
    }
    // whole-run transparent modes
    plans.push(vec!["chunk:read:ANY:1".into()]);
    plans.push(vec!["chunk:write:ANY:1".into()]);
    plans.push(vec!["chunk:write:ANY:7".into(), "eintr_every:write:ANY:2".into()]);
    plans.push(vec!["chunk:read:ANY:5".into(), "eintr_every:read:ANY:2".into()]);
    plans
}

/// `build` over a directory of N tiny diagrams where every output open fails.
pub fn gen_wraparound_build(rng: &mut Rng) -> RunSpec {
    let n = *rng.pick(&[255usize, 256, 256, 257, 512]);
    let mut files = vec![];
    for i in 0..n {
        files.push((format!("many/f{:03}.bob", i), format!("+-+\n|{}|\n+-+\n", i % 10).into_bytes()));
    }
    let errno = *rng.pick(&[ERR_EACCES, ERR_ENOSPC, ERR_EROFS]);
    RunSpec {
        mode: Mode::Build(Build { pattern: Some("many/*.bob".into()), outdir: if rng.chance(1, 2) { Some("out".into()) } else { None } }),
        dirs: vec!["many".into(), "out".into()],
        files,
        stdin: None,
        stdin_pipe: false,
        fifos: vec![],
        faults: vec![format!("all:open:OUTPUT:{}", errno)],
        rand_seed: rng.next_u64() | 1,
        env: vec![],
        prior: vec![],
    }
}

/// Two conversions that run at the same time in one directory (think `make -j`):
/// different inputs, different outputs, both expected to succeed.
/// A small `build` job for the concurrent pairs: its own input directory, a
/// (possibly shared) output directory, stems that start with `tag`.
fn duo_build(rng: &mut Rng, pool: &Pool, tag: &str, outdir: &str) -> RunSpec {
    let mut files = vec![];
    for k in 0..rng.urange(1, 4) {
        let mask = GenMask(GenMask::swarm(rng).0 & !gen::G_FILE);
        let (t, _) = gen::gen_input(rng, pool, mask);
        files.push((format!("{}_src/{}{}.bob", tag, tag, k), t.replace('\0', "").into_bytes()));
    }
    RunSpec {
        mode: Mode::Build(Build { pattern: Some(format!("{}_src/*.bob", tag)), outdir: Some(outdir.to_string()) }),
        dirs: vec![format!("{}_src", tag)],
        files,
        stdin: None,
        stdin_pipe: false,
        fifos: vec![],
        faults: vec![],
        rand_seed: rng.next_u64() | 1,
        env: vec![],
        prior: vec![],
    }
}

pub fn gen_duo(rng: &mut Rng, pool: &Pool) -> [RunSpec; 2] {
    // a third of the pairs involve batch jobs: two builds into one (new) output
    // directory, or a build next to a single conversion into that directory
    if rng.chance(1, 3) {
        let outdir = if rng.chance(1, 2) { "shared_out" } else { "deep/shared/out" };
        let a = duo_build(rng, pool, "a", outdir);
        let mut b = duo_build(rng, pool, "b", outdir);
        if rng.chance(1, 2) {
            // the second one is a single conversion writing next to the batch's outputs
            let text = String::from_utf8_lossy(&b.files[0].1).to_string();
            b = RunSpec {
                mode: Mode::Convert(Convert { input: InputSel::Inline(text.replace('\n', "\\n")), opts: vec![], out: Some(format!("{}/b_single.svg", outdir)), out_long: false, positional_at: 0, extra_args: vec![] }),
                dirs: vec![outdir.to_string()],
                files: vec![],
                ..b
            };
            if let Mode::Convert(c) = &b.mode {
                if let InputSel::Inline(t) = &c.input {
                    if t.starts_with('-') || t.is_empty() {
                        // keep the command line simple: fall back to a tiny diagram
                        let mut c2 = c.clone();
                        c2.input = InputSel::Inline("+-+\\n| |\\n+-+".into());
                        b.mode = Mode::Convert(c2);
                    }
                }
            }
        }
        return [a, b];
    }
    let mut out: Vec<RunSpec> = vec![];
    let dir = if rng.chance(1, 2) { String::new() } else { "work/".to_string() };
    for (i, tag) in ["a", "b"].iter().enumerate() {
        let mask = GenMask(GenMask::swarm(rng).0 & !gen::G_FILE);
        let (mut text, _) = gen::gen_input(rng, pool, mask);
        text = text.replace('\0', "");
        let mut files = vec![];
        let mut stdin = None;
        let input = match rng.below(3) {
            0 => {
                stdin = Some(text.clone().into_bytes());
                InputSel::Stdin
            }
            _ => {
                let name = format!("{}{}_{}.bob", dir, tag, rng.pick(&["in", "diagram", "x y"]));
                files.push((name.clone(), text.clone().into_bytes()));
                InputSel::File(name)
            }
        };
        let mut opts = vec![];
        if rng.chance(1, 2) {
            opts.push(Opt { name: "scale".into(), value: rng.pick(SCALES).to_string(), eq_syntax: false });
        }
        if rng.chance(1, 3) {
            opts.push(Opt { name: "background".into(), value: rng.pick(gen::COLORS).to_string(), eq_syntax: true });
        }
        // mostly -o into the shared directory; sometimes one of the two prints to stdout
        let outp = if i == 1 && rng.chance(1, 5) { None } else { Some(format!("{}{}_out.svg", dir, tag)) };
        out.push(RunSpec {
            mode: Mode::Convert(Convert { input, opts, out: outp, out_long: rng.chance(1, 2), positional_at: 0, extra_args: vec![] }),
            dirs: if dir.is_empty() { vec![] } else { vec!["work".into()] },
            files,
            stdin,
            stdin_pipe: false,
            fifos: vec![],
            faults: vec![],
            rand_seed: rng.next_u64() | 1,
            env: vec![],
            prior: vec![],
        });
    }
    let b = out.pop().unwrap();
    let a = out.pop().unwrap();
    [a, b]
}
