//! Shared pieces of the svgbob simulators: seeded PRNG, digests, workload
//! generators, a by-run-index parallel driver, evidence and known-findings IO.
//!
//! Nothing in here depends on svgbob itself, so the same code serves the
//! native, shuttle and server harnesses.

pub mod digest;
pub mod evidence;
pub mod findings;
pub mod gen;
pub mod par;
pub mod rng;

pub use digest::{fnv64, Digest};
pub use rng::{mix, Rng};
pub use serde_json::{self, json, Value};

pub const DEFAULT_SEED: u64 = 20261002;

/// Seed for the whole check: VERIF_SEED or the fixed default.
pub fn verif_seed() -> u64 {
    match std::env::var("VERIF_SEED") {
        Ok(s) => s.trim().parse::<u64>().unwrap_or_else(|_| fnv64(s.as_bytes())),
        Err(_) => DEFAULT_SEED,
    }
}

pub fn repo_dir() -> String {
    std::env::var("VERIF_REPO").unwrap_or_else(|_| "/repo".to_string())
}

pub fn verif_dir() -> String {
    std::env::var("VERIF_DIR").unwrap_or_else(|_| "/verif".to_string())
}

/// Exit code for harness trouble (never a VIOLATION).
pub const EXIT_HARNESS: i32 = 2;

pub fn harness_error(msg: &str) -> ! {
    eprintln!("HARNESS-ERROR: {}", msg);
    std::process::exit(EXIT_HARNESS)
}

/// Printable, lossless-enough rendering of bytes for replay files and samples.
pub fn escape_bytes(b: &[u8]) -> String {
    let mut s = String::new();
    for &c in b {
        match c {
            b'\\' => s.push_str("\\\\"),
            b'\n' => s.push_str("\\n"),
            b'\r' => s.push_str("\\r"),
            b'\t' => s.push_str("\\t"),
            0x20..=0x7e => s.push(c as char),
            _ => s.push_str(&format!("\\x{:02x}", c)),
        }
    }
    s
}

pub fn unescape_bytes(s: &str) -> Vec<u8> {
    let b = s.as_bytes();
    let mut out = Vec::with_capacity(b.len());
    let mut i = 0;
    while i < b.len() {
        if b[i] == b'\\' && i + 1 < b.len() {
            match b[i + 1] {
                b'\\' => {
                    out.push(b'\\');
                    i += 2;
                }
                b'n' => {
                    out.push(b'\n');
                    i += 2;
                }
                b'r' => {
                    out.push(b'\r');
                    i += 2;
                }
                b't' => {
                    out.push(b'\t');
                    i += 2;
                }
                b'x' if i + 4 <= b.len() => {
                    let h = std::str::from_utf8(&b[i + 2..i + 4]).unwrap_or("00");
                    out.push(u8::from_str_radix(h, 16).unwrap_or(0));
                    i += 4;
                }
                _ => {
                    out.push(b[i]);
                    i += 1;
                }
            }
        } else {
            out.push(b[i]);
            i += 1;
        }
    }
    out
}

/// Short preview of a text for samples.
pub fn preview(s: &str, max: usize) -> String {
    let mut out = String::new();
    for (n, ch) in s.chars().enumerate() {
        if n >= max {
            out.push('…');
            break;
        }
        out.push(ch);
    }
    out
}

#[cfg(test)]
mod tests {
    use super::*;
    #[test]
    fn escape_roundtrip() {
        let all: Vec<u8> = (0..=255u8).collect();
        assert_eq!(unescape_bytes(&escape_bytes(&all)), all);
        let t = b"a\\nb\\x\n\\".to_vec();
        assert_eq!(unescape_bytes(&escape_bytes(&t)), t);
    }
}
