//! C19 simulator: the real svgbob_cli binary under a programmable libc seam.
//!
//!   c19 --tier quick|thorough            run the check, write evidence/C19.json
//!   c19 --replay FILE                    re-execute one replay file
//!   c19 --one PHASE INDEX                run a single generated run verbosely

mod exec;
mod model;
mod shrink;
mod spec;
mod wgen;

use exec::{Env, Observed};
use model::{judge, Violation};
use simcommon::evidence::Evidence;
use simcommon::gen::Pool;
use simcommon::{findings, json, mix, Digest, Rng, Value};
use spec::{Mode, RunSpec};
use std::collections::{BTreeMap, BTreeSet};
use std::path::PathBuf;
use std::sync::atomic::AtomicBool;
use std::sync::Arc;
use std::time::{Duration, Instant};

const PROPERTY: &str = "C19";

struct Budget {
    duo: u64,
    f0: u64,
    enum_workloads: u64,
    random_faults: u64,
    selftest: u64,
}

fn budget(tier: &str) -> Budget {
    let scale = std::env::var("VERIF_SCALE").ok().and_then(|s| s.parse::<f64>().ok()).unwrap_or(1.0);
    let b = if tier == "thorough" {
        Budget { duo: 40_000, f0: 100_000, enum_workloads: 5_000, random_faults: 200_000, selftest: 1_000 }
    } else {
        Budget { duo: 1_500, f0: 3_000, enum_workloads: 150, random_faults: 3_000, selftest: 64 }
    };
    Budget {
        duo: (b.duo as f64 * scale) as u64,
        f0: (b.f0 as f64 * scale) as u64,
        enum_workloads: (b.enum_workloads as f64 * scale) as u64,
        random_faults: (b.random_faults as f64 * scale) as u64,
        selftest: (b.selftest as f64 * scale).max(4.0) as u64,
    }
}

/// Deterministic construction of run `idx` of `phase`.
fn make_spec(seed: u64, phase: &str, idx: u64, pool: &Pool) -> RunSpec {
    let mut rng = Rng::new(mix(seed, phase, idx));
    let mut spec = wgen::gen_workload(&mut rng, pool);
    // very large inputs are for the fault-free phase: replaying them once per
    // fault placement (or one byte per read) would take minutes
    if phase != "f0" {
        let big = |s: &RunSpec| s.files.iter().map(|f| f.1.len()).sum::<usize>() + s.stdin.as_ref().map(|b| b.len()).unwrap_or(0) + s.fifos.iter().map(|f| f.1.len()).sum::<usize>() > (1 << 20);
        let mut tries = 0;
        while big(&spec) && tries < 5 {
            spec = wgen::gen_workload(&mut rng, pool);
            tries += 1;
        }
    }
    // a pre-existing output that looks up to date: exactly as long as the new
    // document and newer than the input, but different (size/mtime heuristics)
    if spec.prior.is_empty() && rng.chance(1, 10) {
        let exp = model::expect(&spec);
        if exp.failure.is_none() {
            if let Some((path, doc)) = exp.outputs.iter().nth(rng.usize_below(exp.outputs.len().max(1))) {
                if doc.len() > 40 && !spec.files.iter().any(|f| model::norm(&f.0) == *path) && !spec.fifos.iter().any(|f| model::norm(&f.0) == *path) {
                    let mut stale = doc.clone();
                    // change one digit/letter well inside the document
                    let at = stale.len() / 2 + rng.usize_below(stale.len() / 4);
                    stale[at] = if stale[at] == b'7' { b'1' } else { b'7' };
                    spec.files.push((path.clone(), stale));
                }
            }
        }
    }
    match phase {
        "f0" | "enum" => {}
        "f1" => spec.faults.extend(wgen::transparent_plan(&mut rng)),
        "f2" => {
            let hint = model::expect(&spec)
                .stdout
                .map(|s| s.len() as u64)
                .or_else(|| model::expect(&spec).outputs.values().next().map(|v| v.len() as u64))
                .unwrap_or(2000);
            if rng.chance(1, 60) {
                // exit statuses are 8 bits wide: a batch in which exactly 256 (or 255, 257, 512) files fail
                spec = wgen::gen_wraparound_build(&mut rng);
            } else {
                spec.faults.extend(wgen::hard_plan(&mut rng, hint));
            }
        }
        _ => {}
    }
    spec
}

#[derive(Clone)]
struct Record {
    phase: String,
    idx: u64,
    sub: u64,
    tuple: String,
    nontrivial: bool,
    injected: Vec<String>,
    outcome: String,
    #[allow(dead_code)]
    digest: Digest,
    violations: Vec<Violation>,
    spec: Option<RunSpec>, // kept only for violating runs and a few samples
    /// two invocations at the same time: the pair and the interleaving that was played
    duo: Option<([RunSpec; 2], Vec<u8>)>,
    expected_failure: bool,
    calls: usize,
}

fn record(phase: &str, idx: u64, sub: u64, spec: &RunSpec, exp: &model::Expect, obs: &Observed, keep: bool) -> Record {
    let violations = judge(spec, exp, obs);
    let mut optnames: Vec<String> = match &spec.mode {
        Mode::Convert(c) => c.opts.iter().map(|o| o.name.clone()).collect(),
        Mode::Build(b) => vec![format!("pattern={}", b.pattern.is_some()), format!("outdir={}", b.outdir.is_some())],
    };
    optnames.sort();
    let mut inj: Vec<String> = obs.injected.iter().map(|i| i.label()).collect();
    inj.sort();
    inj.dedup();
    let out_kind = match &spec.mode {
        Mode::Convert(c) => {
            if c.out.is_some() {
                "file"
            } else {
                "stdout"
            }
        }
        Mode::Build(_) => "files",
    };
    let outcome = model::outcome_class(obs);
    let tuple = format!("{}|{}|{}|{}|{}", spec.mode_name(), optnames.join(","), out_kind, inj.join(","), outcome);
    let nontrivial = exp.stdout.is_some() || !exp.outputs.is_empty() || !inj.is_empty();
    let keep_spec = keep || !violations.is_empty();
    Record {
        phase: phase.to_string(),
        idx,
        sub,
        tuple,
        nontrivial,
        injected: inj,
        outcome,
        digest: obs.digest(),
        violations,
        spec: if keep_spec { Some(spec.clone()) } else { None },
        duo: None,
        expected_failure: exp.failure.is_some() || (obs.injected.iter().any(|i| i.hard()) && obs.exit != Some(0)),
        calls: obs.calls.len(),
    }
}

fn scratch_base() -> PathBuf {
    let shm = PathBuf::from("/dev/shm");
    let base = if shm.is_dir() { shm } else { PathBuf::from(simcommon::verif_dir()).join("work") };
    base.join(format!("verif-c19-{}", std::process::id()))
}

fn env_for(worker: usize) -> Env {
    let target = std::env::var("VERIF_TARGET").unwrap_or_else(|_| "/verif/target".into());
    let interposer = std::env::var("VERIF_INTERPOSER").unwrap_or_else(|_| format!("{}/libverif_io.so", target));
    Env {
        cli: PathBuf::from(format!("{}/release/svgbob_cli", target)),
        interposer: PathBuf::from(interposer),
        scratch: scratch_base().join(format!("w{}", worker)),
        timeout: Duration::from_secs(60),
    }
}

fn run_phase(seed: u64, phase: &'static str, total: u64, pool: Arc<Pool>, threads: usize) -> Vec<Record> {
    let stop = Arc::new(AtomicBool::new(false));
    let res = simcommon::par::run_indexed(threads, 0, total, 64 << 20, stop, move |w, idx| {
        let env = env_for(w);
        let spec = make_spec(seed, phase, idx, &pool);
        let mut recs = vec![];
        if phase == "enum" {
            let obs0 = exec::run(&env, &spec);
            let exp = model::expect_in(&spec, &obs0.before);
            recs.push(record(phase, idx, 0, &spec, &exp, &obs0, idx < 2));
            let plans = wgen::enumerate_single_faults(&obs0.calls);
            for (k, plan) in plans.into_iter().enumerate() {
                let mut s2 = spec.clone();
                // ambient items (terminal, clock) stay; the fault under study is added
                s2.faults.retain(|f| f.starts_with("tty:") || f.starts_with("clock:"));
                s2.faults.extend(plan);
                let obs = exec::run(&env, &s2);
                let exp = model::expect_in(&s2, &obs.before);
                recs.push(record(phase, idx, k as u64 + 1, &s2, &exp, &obs, false));
            }
        } else {
            let obs = exec::run(&env, &spec);
            let exp = model::expect_in(&spec, &obs.before);
            recs.push(record(phase, idx, 0, &spec, &exp, &obs, idx < 3));
        }
        recs
    });
    res.into_iter().flat_map(|(_, r)| r).collect()
}

fn make_duo(seed: u64, idx: u64, pool: &Pool) -> [RunSpec; 2] {
    let mut rng = Rng::new(mix(seed, "duo", idx));
    wgen::gen_duo(&mut rng, pool)
}

/// Two invocations at the same time in one directory, interleaved call by call
/// by the simulator (seeded), judged together.
fn run_duo_phase(seed: u64, total: u64, pool: Arc<Pool>, threads: usize) -> Vec<Record> {
    let stop = Arc::new(AtomicBool::new(false));
    let res = simcommon::par::run_indexed(threads, 0, total, 64 << 20, stop, move |w, idx| {
        let env = env_for(w);
        let specs = make_duo(seed, idx, &pool);
        let mut rng = Rng::new(mix(seed, "duo-schedule", idx));
        // a few scheduling styles: uniform, or long stretches of one process
        let style = rng.below(3);
        let mut last = 0usize;
        let mut pick = |n: usize| -> usize {
            if n <= 1 {
                return 0;
            }
            let k = match style {
                0 => rng.usize_below(n),
                1 => {
                    if rng.chance(4, 5) {
                        last.min(n - 1)
                    } else {
                        rng.usize_below(n)
                    }
                }
                _ => {
                    if rng.chance(1, 2) {
                        0
                    } else {
                        n - 1
                    }
                }
            };
            last = k;
            k
        };
        let (obs, schedule) = exec::run_duo(&env, &specs, &mut pick);
        let violations = model::judge_duo(&specs, &obs);
        let mut d = Digest::new();
        for o in &obs {
            d.u64(o.digest().short());
        }
        let switches = schedule.windows(2).filter(|w| w[0] != w[1]).count();
        Record {
            phase: "duo".into(),
            idx,
            sub: 0,
            tuple: format!("duo|{}+{}|switches={}|{}+{}", specs[0].mode_name(), specs[1].mode_name(), switches.min(12), model::outcome_class(&obs[0]), model::outcome_class(&obs[1])),
            nontrivial: switches > 0,
            injected: vec![],
            outcome: format!("{}+{}", model::outcome_class(&obs[0]), model::outcome_class(&obs[1])),
            digest: d,
            duo: if !violations.is_empty() || idx < 2 { Some((specs.clone(), schedule)) } else { None },
            violations,
            spec: None,
            expected_failure: false,
            calls: obs[0].calls.len() + obs[1].calls.len(),
        }
    });
    res.into_iter().map(|(_, r)| r).collect()
}

fn duo_json(specs: &[RunSpec; 2], schedule: &[u8]) -> Value {
    json!({"duo": [specs[0].to_json(), specs[1].to_json()], "schedule": schedule})
}

fn replay_duo(env: &Env, v: &Value) -> Option<(Vec<Violation>, [Observed; 2])> {
    let d = v.get("duo")?.as_array()?;
    let a = RunSpec::from_json(d.first()?).ok()?;
    let b = RunSpec::from_json(d.get(1)?).ok()?;
    let sched: Vec<u8> = v.get("schedule").and_then(|s| s.as_array()).map(|a| a.iter().map(|x| x.as_u64().unwrap_or(0) as u8).collect()).unwrap_or_default();
    let specs = [a, b];
    let mut pos = 0usize;
    let mut pick = |n: usize| -> usize {
        // the recorded choice is a process index; translate to an index among the blocked ones
        let want = sched.get(pos).copied().unwrap_or(0) as usize;
        pos += 1;
        if n == 2 {
            want.min(1)
        } else {
            0
        }
    };
    let (obs, _) = exec::run_duo(env, &specs, &mut pick);
    Some((model::judge_duo(&specs, &obs), obs))
}

/// Run the same generated runs twice (different worker threads, different
/// scratch directories) and compare digests of everything observable.
fn selftest(seed: u64, n: u64, pool: Arc<Pool>, threads: usize) -> (u64, Vec<String>) {
    let mut mismatches = vec![];
    let phases = ["f0", "f1", "f2"];
    let mut digests: Vec<BTreeMap<(usize, u64), Digest>> = vec![];
    for pass in 0..2 {
        let stop = Arc::new(AtomicBool::new(false));
        let pool = pool.clone();
        let t = if pass == 0 { threads } else { 3.min(threads).max(1) };
        let res = simcommon::par::run_indexed(t, 0, n * 3, 64 << 20, stop, move |w, j| {
            let env = env_for(w + 100 * (pass + 1));
            let p = (j % 3) as usize;
            let idx = j / 3;
            let spec = make_spec(seed, phases[p], idx, &pool);
            let obs = exec::run(&env, &spec);
            ((p, idx), obs.digest())
        });
        digests.push(res.into_iter().map(|(_, r)| r).collect());
    }
    for (k, d) in &digests[0] {
        if digests[1].get(k) != Some(d) {
            mismatches.push(format!("{}#{}", phases[k.0], k.1));
        }
    }
    (digests[0].len() as u64, mismatches)
}

fn sig_key(v: &Violation) -> String {
    v.signature.to_string()
}

fn write_replay(seed: u64, rec: &Record, spec: &RunSpec, v: &Violation, obs: &Observed, exp: &model::Expect) -> String {
    let dir = format!("{}/replays/{}", simcommon::verif_dir(), PROPERTY);
    let _ = std::fs::create_dir_all(&dir);
    let path = format!("{}/{}-{}-{}-{}.json", dir, seed, rec.phase, rec.idx, rec.sub);
    let val = json!({
        "property": PROPERTY,
        "seed": seed.to_string(),
        "origin": {"phase": rec.phase, "index": rec.idx, "sub": rec.sub},
        "spec": spec.to_json(),
        "violation": {"class": v.class, "detail": v.detail, "signature": v.signature},
        "expected": {
            "failure": exp.failure,
            "stdout_len": exp.stdout.as_ref().map(|s| s.len()),
            "outputs": exp.outputs.iter().map(|(k, v)| (k.clone(), json!(v.len()))).collect::<BTreeMap<_, _>>(),
        },
        "observed": {
            "exit": obs.exit,
            "signal": obs.signal,
            "stdout_len": obs.stdout.len(),
            "stderr": simcommon::preview(&String::from_utf8_lossy(&obs.stderr), 600),
            "event_log": obs.log.lines().take(200).collect::<Vec<_>>(),
        },
        "how_to_replay": format!("./check {} --replay {}", PROPERTY, path),
    });
    std::fs::write(&path, simcommon::serde_json::to_string_pretty(&val).unwrap() + "\n").unwrap();
    path
}

fn replay(path: &str) -> i32 {
    let txt = std::fs::read_to_string(path).unwrap_or_else(|e| simcommon::harness_error(&format!("{}: {}", path, e)));
    let v: Value = simcommon::serde_json::from_str(&txt).unwrap_or_else(|e| simcommon::harness_error(&format!("{}: {}", path, e)));
    if v.get("duo").is_some() {
        let env = env_for(0);
        let r = replay_duo(&env, &v);
        let _ = std::fs::remove_dir_all(scratch_base());
        return match r {
            Some((vs, obs)) if !vs.is_empty() => {
                for x in &vs {
                    println!("REPLAY: {} — {}", x.class, x.detail);
                }
                print!("--- first invocation\n{}--- second invocation\n{}", obs[0].log, obs[1].log);
                println!("VIOLATION property={} replay={}", PROPERTY, path);
                1
            }
            _ => {
                println!("REPLAY: no violation reproduced");
                0
            }
        };
    }
    let spec = RunSpec::from_json(v.get("spec").unwrap_or(&Value::Null)).unwrap_or_else(|e| simcommon::harness_error(&e));
    let env = env_for(0);
    let obs = exec::run(&env, &spec);
    let exp = model::expect_in(&spec, &obs.before);
    let vs = judge(&spec, &exp, &obs);
    println!("argv: svgbob {:?}", spec.argv());
    println!("faults: {:?}", spec.faults);
    println!("exit={:?} signal={:?} stdout={}B stderr={}", obs.exit, obs.signal, obs.stdout.len(), simcommon::preview(&String::from_utf8_lossy(&obs.stderr), 300));
    print!("{}", obs.log);
    let _ = std::fs::remove_dir_all(scratch_base());
    let want = v.get("violation").and_then(|x| x.get("class")).and_then(|c| c.as_str()).unwrap_or("");
    if vs.is_empty() {
        println!("REPLAY: no violation reproduced (recorded class: {})", want);
        return 0;
    }
    for x in &vs {
        println!("REPLAY: {} — {}", x.class, x.detail);
    }
    let known = findings::load(PROPERTY);
    if vs.iter().all(|x| findings::known_match(&known, &x.signature).is_some()) {
        for x in &vs {
            let f = findings::known_match(&known, &x.signature).unwrap();
            println!("KNOWN-FINDING: property={} {}", PROPERTY, f.what);
        }
        return 0;
    }
    println!("VIOLATION property={} replay={}", PROPERTY, path);
    1
}

fn main() {
    let args: Vec<String> = std::env::args().skip(1).collect();
    model::install_quiet_panic_hook();
    let mut tier = std::env::var("VERIF_TIER").unwrap_or_else(|_| "quick".into());
    let mut i = 0;
    while i < args.len() {
        match args[i].as_str() {
            "--tier" => {
                tier = args.get(i + 1).cloned().unwrap_or(tier);
                i += 1;
            }
            "--replay" => {
                let p = args.get(i + 1).cloned().unwrap_or_default();
                std::process::exit(replay(&p));
            }
            "--one" => {
                let phase = args.get(i + 1).cloned().unwrap_or_default();
                let idx: u64 = args.get(i + 2).and_then(|s| s.parse().ok()).unwrap_or(0);
                let pool = Pool::load(&simcommon::repo_dir(), 6000);
                let spec = make_spec(simcommon::verif_seed(), &phase, idx, &pool);
                let obs = exec::run(&env_for(0), &spec);
                let exp = model::expect_in(&spec, &obs.before);
                println!("{}", simcommon::serde_json::to_string_pretty(&spec.to_json()).unwrap());
                println!("expect.failure={:?} outputs={:?}", exp.failure, exp.outputs.keys().collect::<Vec<_>>());
                println!("exit={:?} sig={:?}\nstderr={}\nlog:\n{}", obs.exit, obs.signal, String::from_utf8_lossy(&obs.stderr), obs.log);
                for v in judge(&spec, &exp, &obs) {
                    println!("VIOL {} {}", v.class, v.detail);
                }
                let _ = std::fs::remove_dir_all(scratch_base());
                return;
            }
            _ => {}
        }
        i += 1;
    }
    std::process::exit(check(&tier));
}

fn check(tier: &str) -> i32 {
    let t0 = Instant::now();
    let seed = simcommon::verif_seed();
    let threads = simcommon::par::threads_from_env();
    let b = budget(tier);
    let pool = Arc::new(Pool::load(&simcommon::repo_dir(), 6000));
    eprintln!("[c19] seed={} tier={} threads={} pool: {} files, {} paragraphs", seed, tier, threads, pool.files.len(), pool.paragraphs.len());

    // determinism first: a mismatch is a harness error, never a verdict
    let (st_n, st_mis) = selftest(seed, b.selftest, pool.clone(), threads);
    // never a verdict by itself; violations below are each confirmed by re-execution
    let nondeterministic = !st_mis.is_empty();
    if nondeterministic {
        eprintln!("[c19] determinism self-test: {} of {} runs differ between two executions, e.g. {:?}", st_mis.len(), st_n, &st_mis[..st_mis.len().min(5)]);
    }

    let mut all: Vec<Record> = vec![];
    let mut phase_counts = BTreeMap::new();
    for (phase, n) in [("f0", b.f0), ("enum", b.enum_workloads), ("f1", b.random_faults / 2), ("f2", b.random_faults - b.random_faults / 2)] {
        let t = Instant::now();
        let recs = run_phase(seed, phase, n, pool.clone(), threads);
        eprintln!("[c19] phase {}: {} jobs, {} runs, {:.1}s", phase, n, recs.len(), t.elapsed().as_secs_f64());
        phase_counts.insert(phase.to_string(), json!({"jobs": n, "runs": recs.len()}));
        all.extend(recs);
    }

    {
        let t = Instant::now();
        let recs = run_duo_phase(seed, b.duo, pool.clone(), threads);
        eprintln!("[c19] phase duo: {} pairs of concurrent invocations, {:.1}s", recs.len(), t.elapsed().as_secs_f64());
        phase_counts.insert("duo".to_string(), json!({"jobs": b.duo, "runs": recs.len()}));
        all.extend(recs);
    }

    // ---- triage
    let known = findings::load(PROPERTY);
    let mut by_sig: BTreeMap<String, (usize, u64)> = BTreeMap::new(); // sig -> (first record index, count)
    for (ri, r) in all.iter().enumerate() {
        if let Some(v) = r.violations.first() {
            let e = by_sig.entry(sig_key(v)).or_insert((ri, 0));
            e.1 += 1;
        }
    }
    let env = env_for(0);
    let mut new_violations = 0u64;
    let mut known_hits: BTreeMap<String, u64> = BTreeMap::new();
    let mut violation_lines = vec![];
    let mut unconfirmed = 0u64;
    let mut vio_samples = vec![];
    for (_sig, (ri, count)) in by_sig.iter() {
        let r = &all[*ri];
        let v = &r.violations[0];
        if let Some(f) = findings::known_match(&known, &v.signature) {
            *known_hits.entry(f.what.clone()).or_default() += *count;
            continue;
        }
        if violation_lines.len() >= 12 {
            new_violations += 1;
            continue;
        }
        if let Some((specs, schedule)) = &r.duo {
            // concurrent invocations: confirm by replaying the recorded interleaving
            let val = duo_json(specs, schedule);
            let mut confirmed = None;
            for _ in 0..3 {
                if let Some((vs, obs)) = replay_duo(&env, &val) {
                    if let Some(x) = vs.iter().find(|x| x.class == v.class) {
                        confirmed = Some((x.clone(), obs));
                        break;
                    }
                }
            }
            match confirmed {
                None => {
                    unconfirmed += 1;
                    eprintln!("[c19] concurrent {} at duo#{} did not replay", v.class, r.idx);
                }
                Some((x, obs)) => {
                    let dir = format!("{}/replays/{}", simcommon::verif_dir(), PROPERTY);
                    let _ = std::fs::create_dir_all(&dir);
                    let path = format!("{}/{}-duo-{}.json", dir, seed, r.idx);
                    let out = json!({"property": PROPERTY, "seed": seed.to_string(), "violation": {"class": x.class, "detail": x.detail, "signature": x.signature},
                        "duo": val["duo"], "schedule": val["schedule"],
                        "observed": {"exit": [obs[0].exit, obs[1].exit], "event_logs": [obs[0].log.lines().take(60).collect::<Vec<_>>(), obs[1].log.lines().take(60).collect::<Vec<_>>()]},
                        "how_to_replay": format!("./check {} --replay {}", PROPERTY, path)});
                    std::fs::write(&path, simcommon::serde_json::to_string_pretty(&out).unwrap() + "\n").unwrap();
                    new_violations += 1;
                    vio_samples.push(json!({"class": x.class, "detail": x.detail, "signature": x.signature, "count": count, "argv": [specs[0].argv(), specs[1].argv()], "schedule_len": schedule.len()}));
                    violation_lines.push(format!("VIOLATION property={} replay={}", PROPERTY, path));
                    eprintln!("[c19] concurrent invocations: {} ({} runs): {}", x.class, count, x.detail);
                }
            }
            continue;
        }
        let spec = r.spec.clone().unwrap();
        // confirm by re-execution, then minimise, then replay the minimised description once more
        let mut obs = exec::run(&env, &spec);
        let mut exp = model::expect_in(&spec, &obs.before);
        let mut again = judge(&spec, &exp, &obs);
        // runs fed through real pipes depend on kernel timing: give them a few attempts
        let attempts = if spec.stdin_pipe || !spec.fifos.is_empty() || nondeterministic { 6 } else { 1 };
        for _ in 1..attempts {
            if again.iter().any(|x| shrink::same_class(x, v)) {
                break;
            }
            obs = exec::run(&env, &spec);
            exp = model::expect_in(&spec, &obs.before);
            again = judge(&spec, &exp, &obs);
        }
        if !again.iter().any(|x| shrink::same_class(x, v)) {
            unconfirmed += 1;
            eprintln!("[c19] violation {} at {}#{}.{} did not re-execute identically", v.class, r.phase, r.idx, r.sub);
            continue;
        }
        let small = shrink::shrink(&env, &spec, v);
        let obs2 = exec::run(&env, &small);
        let exp2 = model::expect_in(&small, &obs2.before);
        let vs2 = judge(&small, &exp2, &obs2);
        let (fs, fv, fo, fe) = match vs2.iter().find(|x| shrink::same_class(x, v)) {
            Some(x) => (small, x.clone(), obs2, exp2),
            None => (spec, v.clone(), obs, exp),
        };
        if let Some(f) = findings::known_match(&known, &fv.signature) {
            *known_hits.entry(f.what.clone()).or_default() += *count;
            continue;
        }
        let path = write_replay(seed, r, &fs, &fv, &fo, &fe);
        new_violations += 1;
        vio_samples.push(json!({"class": fv.class, "detail": fv.detail, "signature": fv.signature, "count": count, "argv": fs.argv(), "faults": fs.faults}));
        violation_lines.push(format!("VIOLATION property={} replay={}", PROPERTY, path));
        eprintln!("[c19] {} ({} runs): {}", fv.class, count, fv.detail);
    }
    let _ = std::fs::remove_dir_all(scratch_base());

    // ---- evidence
    let evaluations = all.len() as u64;
    let distinct: BTreeSet<&str> = all.iter().filter(|r| r.nontrivial).map(|r| r.tuple.as_str()).collect();
    let mut fired: BTreeMap<String, u64> = BTreeMap::new();
    let mut outcomes: BTreeMap<String, u64> = BTreeMap::new();
    let mut modes: BTreeMap<String, u64> = BTreeMap::new();
    let mut expected_failures = 0u64;
    let mut calls_total = 0u64;
    for r in &all {
        for i in &r.injected {
            *fired.entry(i.clone()).or_default() += 1;
        }
        *outcomes.entry(r.outcome.clone()).or_default() += 1;
        *modes.entry(r.tuple.split('|').next().unwrap_or("").to_string()).or_default() += 1;
        expected_failures += r.expected_failure as u64;
        calls_total += r.calls as u64;
    }
    let samples: Vec<Value> = all
        .iter()
        .filter(|r| r.spec.is_some() && r.violations.is_empty())
        .take(4)
        .map(|r| {
            let s = r.spec.as_ref().unwrap();
            json!({"phase": r.phase, "index": r.idx, "argv": s.argv(), "faults": s.faults, "files": s.files.iter().map(|f| f.0.clone()).collect::<Vec<_>>(), "outcome": r.outcome, "fired": r.injected})
        })
        .chain(
            all.iter()
                .filter(|r| r.phase == "f2" && !r.injected.is_empty())
                .take(3)
                .map(|r| json!({"phase": r.phase, "index": r.idx, "tuple": r.tuple})),
        )
        .collect();
    let wall = t0.elapsed().as_secs_f64();
    let mut ev = Evidence::new(PROPERTY, tier, seed, "fault_enumeration");
    ev.cov("evaluations", json!(evaluations));
    ev.cov("distinct_nontrivial", json!(distinct.len()));
    ev.cov("rule", json!("one evaluation = one execution of the real svgbob_cli binary under the libc interposer, judged against the reference model. Phases: f0 fault-free, enum = every single-fault placement (kind x call site, sampled byte offsets) along a fault-free run, f1 random transparent faults, f2 random hard faults. A case is non-trivial if a document was due or a fault fired; distinct = distinct (mode, option subset, output kind, set of fired fault kinds by call and role, exit class) tuples."));
    ev.cov("samples", json!(samples));
    ev.cov("phases", json!(phase_counts));
    ev.cov("concurrent_invocations", json!({"pairs": b.duo, "pairs_with_at_least_one_switch": all.iter().filter(|r| r.phase == "duo" && r.nontrivial).count(), "note": "two real CLI processes in one directory, released one tracked libc call at a time through the interposer's turnstile; the interleaving is chosen by the seed and recorded for replay"}));
    ev.cov("faults_fired", json!(fired));
    ev.cov("outcomes", json!(outcomes));
    ev.cov("modes", json!(modes));
    ev.cov("runs_expected_to_fail", json!(expected_failures));
    ev.cov("io_calls_observed", json!(calls_total));
    ev.cov("runs_per_hour", json!((evaluations as f64 / wall * 3600.0) as u64));
    ev.cov("simulated_time", json!("none: the CLI reads no clock; progress is counted in I/O calls (io_calls_observed)"));
    ev.cov("determinism_selftest", json!({"runs_executed_twice": st_n, "mismatches": st_mis.len(), "worker_counts": [threads, 3.min(threads)]}));
    ev.cov("real_vs_stub", json!({"real": ["svgbob_cli binary built from /repo (main.rs unmodified)", "clap", "std I/O layers", "svgbob library", "kernel file system (tmpfs) for un-faulted calls"], "stub": ["results of faulted libc calls", "directory listing order (sorted, then seeded shuffle)", "getrandom (seeded)"]}));
    ev.cov("known_findings_hit", json!(known_hits));
    ev.cov("violations_sample", json!(vio_samples));
    ev.cov("unconfirmed", json!(unconfirmed));
    ev.assumptions = vec![
        "the library linked into the harness from the same /repo tree computes the reference document".into(),
        "faults on stderr, signals, stat() failures and bit flips are out of scope (the property does not fix their outcome)".into(),
        "a clean batch is evidence over the sampled schedules and fault placements, not proof".into(),
    ];
    ev.wall_s = wall;
    ev.violations = new_violations;
    ev.write();

    for (what, n) in &known_hits {
        println!("KNOWN-FINDING: property={} {} ({} runs)", PROPERTY, what, n);
    }
    for l in &violation_lines {
        println!("{}", l);
    }
    eprintln!("[c19] {} runs, {} distinct non-trivial, {} new violation signatures, {:.1}s", evaluations, distinct.len(), new_violations, wall);
    if new_violations > 0 {
        1
    } else if unconfirmed > 0 {
        simcommon::harness_error("a violation did not reproduce on re-execution (non-determinism in the harness or in the system under test)")
    } else if nondeterministic {
        // Every explored run was judged by the oracle and none failed; the
        // mismatch only means that a failure might not have replayed exactly.
        eprintln!("[c19] warning: the system under test was not fully deterministic under the simulator (see determinism_selftest in the evidence); no violation found");
        0
    } else {
        0
    }
}

