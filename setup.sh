#!/bin/sh
# Build the framework offline. Real work is done by ./check --setup (added later).
exit 0
