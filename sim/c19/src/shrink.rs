//! Minimise a violating run description while the same violation class persists.

use crate::exec::{self, Env};
use crate::model::{self, Violation};
use crate::spec::*;

pub fn same_class(a: &Violation, b: &Violation) -> bool {
    a.class == b.class
        && a.signature.get("output") == b.signature.get("output")
        && a.signature.get("fault") == b.signature.get("fault")
        && a.signature.get("model_failure") == b.signature.get("model_failure")
}

fn still_fails(env: &Env, spec: &RunSpec, v: &Violation) -> bool {
    let obs = exec::run(env, spec);
    let exp = model::expect_in(spec, &obs.before);
    model::judge(spec, &exp, &obs).iter().any(|x| same_class(x, v))
}

fn text_candidates(t: &[u8]) -> Vec<Vec<u8>> {
    let mut out = vec![];
    let s = String::from_utf8_lossy(t).to_string();
    let lines: Vec<&str> = s.split_inclusive('\n').collect();
    if lines.len() > 1 {
        let h = lines.len() / 2;
        out.push(lines[..h].concat().into_bytes());
        out.push(lines[h..].concat().into_bytes());
        if lines.len() <= 12 {
            for i in 0..lines.len() {
                let mut l = lines.clone();
                l.remove(i);
                out.push(l.concat().into_bytes());
            }
        }
    } else if t.len() > 1 {
        let h = t.len() / 2;
        if let (Ok(a), Ok(b)) = (std::str::from_utf8(&t[..h]), std::str::from_utf8(&t[h..])) {
            out.push(a.as_bytes().to_vec());
            out.push(b.as_bytes().to_vec());
        }
    }
    if !t.is_empty() {
        out.push(b"-\n".to_vec());
    }
    out
}

fn candidates(spec: &RunSpec) -> Vec<RunSpec> {
    let mut c = vec![];
    for i in 0..spec.faults.len() {
        let mut s = spec.clone();
        s.faults.remove(i);
        c.push(s);
    }
    match &spec.mode {
        Mode::Convert(cv) => {
            for i in 0..cv.opts.len() {
                let mut s = spec.clone();
                if let Mode::Convert(c2) = &mut s.mode {
                    c2.opts.remove(i);
                }
                c.push(s);
            }
            match &cv.input {
                InputSel::Inline(t) => {
                    let real = t.replace("\\n", "\n");
                    for cand in text_candidates(real.as_bytes()) {
                        let mut s = spec.clone();
                        if let Mode::Convert(c2) = &mut s.mode {
                            c2.input = InputSel::Inline(String::from_utf8_lossy(&cand).replace('\n', "\\n"));
                        }
                        c.push(s);
                    }
                }
                InputSel::Stdin => {
                    if let Some(b) = &spec.stdin {
                        for cand in text_candidates(b) {
                            let mut s = spec.clone();
                            s.stdin = Some(cand);
                            c.push(s);
                        }
                    }
                }
                InputSel::File(_) => {}
            }
        }
        Mode::Build(_) => {}
    }
    for i in 0..spec.files.len() {
        let mut s = spec.clone();
        s.files.remove(i);
        c.push(s);
        for cand in text_candidates(&spec.files[i].1) {
            let mut s = spec.clone();
            s.files[i].1 = cand;
            c.push(s);
        }
    }
    if !spec.prior.is_empty() {
        let mut s = spec.clone();
        s.prior.clear();
        c.insert(0, s);
    }
    for i in 0..spec.env.len() {
        let mut s = spec.clone();
        s.env.remove(i);
        c.push(s);
    }
    for i in 0..spec.fifos.len() {
        for cand in text_candidates(&spec.fifos[i].1) {
            let mut s = spec.clone();
            s.fifos[i].1 = cand;
            c.push(s);
        }
    }
    for i in 0..spec.dirs.len() {
        let mut s = spec.clone();
        s.dirs.remove(i);
        c.push(s);
    }
    c
}

pub fn shrink(env: &Env, spec: &RunSpec, v: &Violation) -> RunSpec {
    let mut cur = spec.clone();
    let mut budget = 400;
    loop {
        let mut improved = false;
        for cand in candidates(&cur) {
            if budget == 0 {
                return cur;
            }
            budget -= 1;
            if cand != cur && still_fails(env, &cand, v) {
                cur = cand;
                improved = true;
                break;
            }
        }
        if !improved {
            return cur;
        }
    }
}
