//! Leg M of C07: the shipped library (real once_cell statics, no stand-in)
//! under Miri's seeded, preemptive scheduler with the data-race detector on.
//! One Miri seed = one exactly repeatable execution of `sim/c07m`.
//!
//! Slow (about ten minutes per seed), therefore thorough tier only, all seeds
//! in parallel. A Miri failure that is neither a data race nor an output
//! mismatch (unsupported operation, build trouble) marks the leg
//! *inconclusive* and decides nothing.

use simcommon::{json, Value};
use std::process::{Command, Stdio};
use std::time::{Duration, Instant};

pub const FLAGS: &str = "-Zmiri-preemption-rate=0.05 -Zmiri-disable-stacked-borrows -Zmiri-disable-validation";

#[derive(Clone, Debug, PartialEq)]
pub enum Status {
    Ok,
    DataRace,
    Mismatch,
    Inconclusive,
}

#[derive(Clone, Debug)]
pub struct Outcome {
    pub seed: u64,
    pub threads: usize,
    pub variant: usize,
    pub status: Status,
    pub wall: f64,
    pub tail: String,
}

impl Outcome {
    pub fn to_json(&self) -> Value {
        json!({"miri_seed": self.seed, "threads": self.threads, "variant": self.variant, "status": format!("{:?}", self.status), "wall_s": self.wall as u64, "tail": self.tail})
    }
}

pub fn available() -> bool {
    Command::new("cargo")
        .args(["+nightly", "miri", "--version"])
        .stdout(Stdio::null())
        .stderr(Stdio::null())
        .status()
        .map(|s| s.success())
        .unwrap_or(false)
}

pub fn run_one(seed: u64, threads: usize, variant: usize, timeout: Duration) -> Outcome {
    let t0 = Instant::now();
    let sim = format!("{}/sim", simcommon::verif_dir());
    let target = format!("{}/miri", std::env::var("VERIF_TARGET").unwrap_or_else(|_| "/verif/target".into()));
    let mut c = Command::new("cargo");
    c.args(["+nightly", "miri", "run", "--offline", "-q", "-p", "c07m", "--"])
        .arg(threads.to_string())
        .arg(variant.to_string())
        .current_dir(&sim)
        .env("MIRIFLAGS", format!("-Zmiri-seed={} {}", seed, FLAGS))
        .env("CARGO_TARGET_DIR", &target)
        .env("CARGO_NET_OFFLINE", "true")
        .env_remove("RUSTFLAGS")
        .stdin(Stdio::null())
        .stdout(Stdio::piped())
        .stderr(Stdio::piped());
    let mut child = match c.spawn() {
        Ok(c) => c,
        Err(e) => {
            return Outcome { seed, threads, variant, status: Status::Inconclusive, wall: 0.0, tail: format!("cannot start cargo miri: {}", e) };
        }
    };
    let mut so = child.stdout.take().unwrap();
    let mut se = child.stderr.take().unwrap();
    let ho = std::thread::spawn(move || {
        let mut s = String::new();
        let _ = std::io::Read::read_to_string(&mut so, &mut s);
        s
    });
    let he = std::thread::spawn(move || {
        let mut s = String::new();
        let _ = std::io::Read::read_to_string(&mut se, &mut s);
        s
    });
    let mut timed_out = false;
    let status = loop {
        match child.try_wait() {
            Ok(Some(s)) => break Some(s),
            Ok(None) => {
                if t0.elapsed() > timeout {
                    timed_out = true;
                    let _ = child.kill();
                    let _ = child.wait();
                    break None;
                }
                std::thread::sleep(Duration::from_millis(200));
            }
            Err(_) => break None,
        }
    };
    let stdout = ho.join().unwrap_or_default();
    let stderr = he.join().unwrap_or_default();
    let ok = status.map(|s| s.success()).unwrap_or(false);
    let st = if stderr.contains("Data race detected") || stderr.contains("data race") {
        Status::DataRace
    } else if stdout.contains("MISMATCH") || stderr.contains("MISMATCH") {
        Status::Mismatch
    } else if ok && stdout.contains("mismatches=0") {
        Status::Ok
    } else {
        Status::Inconclusive
    };
    let mut tail: String = stderr.lines().rev().take(12).collect::<Vec<_>>().into_iter().rev().collect::<Vec<_>>().join("\n");
    if timed_out {
        tail = format!("TIMEOUT after {:?}\n{}", timeout, tail);
    }
    tail.push_str(&format!("\nstdout: {}", simcommon::preview(&stdout, 300)));
    Outcome { seed, threads, variant, status: st, wall: t0.elapsed().as_secs_f64(), tail: simcommon::preview(&tail, 1500) }
}

/// Run `n` seeds in parallel.
pub fn run_many(check_seed: u64, n: usize) -> Vec<Outcome> {
    let mut hs = vec![];
    for k in 0..n {
        let seed = simcommon::mix(check_seed, "c07-miri", k as u64) % 1_000_000;
        let threads = 2 + (k % 2);
        let variant = k % 4;
        hs.push(std::thread::spawn(move || run_one(seed, threads, variant, Duration::from_secs(3600))));
    }
    hs.into_iter().filter_map(|h| h.join().ok()).collect()
}
