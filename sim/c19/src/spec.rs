//! Explicit, serialisable description of one simulated CLI run.

use simcommon::{escape_bytes, json, unescape_bytes, Value};

#[derive(Clone, Debug, PartialEq)]
pub enum InputSel {
    /// positional FILE argument (relative path)
    File(String),
    Stdin,
    /// `-s TEXT` (TEXT as passed, i.e. with literal backslash-n escapes)
    Inline(String),
}

/// Options as passed on the command line (raw strings, in the order given).
#[derive(Clone, Debug, PartialEq)]
pub struct Opt {
    pub name: String, // background, fill-color, font-family, font-size, stroke-width, stroke-color, scale
    pub value: String,
    pub eq_syntax: bool, // --name=value instead of --name value
}

#[derive(Clone, Debug, PartialEq)]
pub struct Convert {
    pub input: InputSel,
    pub opts: Vec<Opt>,
    pub out: Option<String>,
    pub out_long: bool, // --output instead of -o
    /// position of the positional argument among the option groups (clamped)
    pub positional_at: usize,
    /// appended verbatim: unknown flags, surplus positionals (usage errors)
    pub extra_args: Vec<String>,
}

#[derive(Clone, Debug, PartialEq)]
pub struct Build {
    pub pattern: Option<String>,
    pub outdir: Option<String>,
}

#[derive(Clone, Debug, PartialEq)]
pub enum Mode {
    Convert(Convert),
    Build(Build),
}

#[derive(Clone, Debug, PartialEq)]
pub struct RunSpec {
    pub mode: Mode,
    /// directories to create in the working directory before the run
    pub dirs: Vec<String>,
    /// files to create before the run (relative path, content)
    pub files: Vec<(String, Vec<u8>)>,
    pub stdin: Option<Vec<u8>>,
    /// deliver standard input through a pipe instead of a redirected file
    pub stdin_pipe: bool,
    /// named pipes to create (relative path, content fed by a writer)
    pub fifos: Vec<(String, Vec<u8>)>,
    /// fault plan items (see verif_io.c)
    pub faults: Vec<String>,
    pub rand_seed: u64,
    /// environment variables of the child (nothing in the contract depends on them)
    pub env: Vec<(String, String)>,
    /// earlier invocations executed in the same working directory before this
    /// one (their own files are laid out too); only this run is judged
    pub prior: Vec<RunSpec>,
}

impl RunSpec {
    pub fn argv(&self) -> Vec<String> {
        let mut a = vec![];
        match &self.mode {
            Mode::Build(b) => {
                a.push("build".to_string());
                if let Some(p) = &b.pattern {
                    a.push("-i".into());
                    a.push(p.clone());
                }
                if let Some(o) = &b.outdir {
                    a.push("-o".into());
                    a.push(o.clone());
                }
            }
            Mode::Convert(c) => {
                let mut groups: Vec<Vec<String>> = vec![];
                for o in &c.opts {
                    if o.eq_syntax {
                        groups.push(vec![format!("--{}={}", o.name, o.value)]);
                    } else {
                        groups.push(vec![format!("--{}", o.name), o.value.clone()]);
                    }
                }
                if let Some(out) = &c.out {
                    groups.push(vec![if c.out_long { "--output".into() } else { "-o".into() }, out.clone()]);
                }
                let positional: Option<(Vec<String>, bool)> = match &c.input {
                    InputSel::File(p) => Some((vec![p.clone()], false)),
                    InputSel::Stdin => None,
                    InputSel::Inline(t) => Some((vec!["-s".into(), t.clone()], t.starts_with('-'))),
                };
                match positional {
                    None => {
                        for g in groups {
                            a.extend(g);
                        }
                    }
                    Some((p, needs_dashdash)) => {
                        if needs_dashdash {
                            // `-s` first, everything else, then `-- TEXT`
                            a.push(p[0].clone());
                            for g in groups {
                                a.extend(g);
                            }
                            a.push("--".into());
                            a.push(p[1].clone());
                        } else {
                            let at = c.positional_at.min(groups.len());
                            for (i, g) in groups.iter().enumerate() {
                                if i == at {
                                    a.extend(p.clone());
                                }
                                a.extend(g.clone());
                            }
                            if at >= groups.len() {
                                a.extend(p);
                            }
                        }
                    }
                }
                a.extend(c.extra_args.iter().cloned());
            }
        }
        a
    }

    pub fn mode_name(&self) -> &'static str {
        match &self.mode {
            Mode::Build(_) => "build",
            Mode::Convert(c) => match c.input {
                InputSel::File(_) => "convert-file",
                InputSel::Stdin => "convert-stdin",
                InputSel::Inline(_) => "convert-inline",
            },
        }
    }

    pub fn to_json(&self) -> Value {
        let mode = match &self.mode {
            Mode::Build(b) => json!({"kind":"build","pattern":b.pattern,"outdir":b.outdir}),
            Mode::Convert(c) => {
                let input = match &c.input {
                    InputSel::File(p) => json!({"file":p}),
                    InputSel::Stdin => json!("stdin"),
                    InputSel::Inline(t) => json!({"inline":t}),
                };
                let opts: Vec<Value> = c
                    .opts
                    .iter()
                    .map(|o| json!({"name":o.name,"value":o.value,"eq":o.eq_syntax}))
                    .collect();
                json!({"kind":"convert","input":input,"opts":opts,"out":c.out,"out_long":c.out_long,"positional_at":c.positional_at,"extra_args":c.extra_args})
            }
        };
        let files: Vec<Value> = self
            .files
            .iter()
            .map(|(p, c)| json!({"path":p,"content":escape_bytes(c)}))
            .collect();
        json!({
            "mode": mode,
            "dirs": self.dirs,
            "files": files,
            "stdin": self.stdin.as_ref().map(|b| escape_bytes(b)),
            "stdin_pipe": self.stdin_pipe,
            "fifos": self.fifos.iter().map(|(p, c)| json!({"path":p,"content":escape_bytes(c)})).collect::<Vec<_>>(),
            "faults": self.faults,
            "rand_seed": self.rand_seed.to_string(),
            "env": self.env.iter().map(|(k, v)| json!([k, v])).collect::<Vec<_>>(),
            "prior": self.prior.iter().map(|p| p.to_json()).collect::<Vec<_>>(),
            "argv": self.argv(),
        })
    }

    pub fn from_json(v: &Value) -> Result<RunSpec, String> {
        let m = v.get("mode").ok_or("no mode")?;
        let s = |x: &Value| x.as_str().map(|s| s.to_string());
        let mode = match m.get("kind").and_then(|k| k.as_str()) {
            Some("build") => Mode::Build(Build {
                pattern: m.get("pattern").and_then(s),
                outdir: m.get("outdir").and_then(s),
            }),
            Some("convert") => {
                let iv = m.get("input").ok_or("no input")?;
                let input = if iv.as_str() == Some("stdin") {
                    InputSel::Stdin
                } else if let Some(p) = iv.get("file").and_then(s) {
                    InputSel::File(p)
                } else if let Some(t) = iv.get("inline").and_then(s) {
                    InputSel::Inline(t)
                } else {
                    return Err("bad input".into());
                };
                let mut opts = vec![];
                for o in m.get("opts").and_then(|o| o.as_array()).cloned().unwrap_or_default() {
                    opts.push(Opt {
                        name: o.get("name").and_then(s).ok_or("opt name")?,
                        value: o.get("value").and_then(s).ok_or("opt value")?,
                        eq_syntax: o.get("eq").and_then(|b| b.as_bool()).unwrap_or(false),
                    });
                }
                Mode::Convert(Convert {
                    input,
                    opts,
                    out: m.get("out").and_then(s),
                    out_long: m.get("out_long").and_then(|b| b.as_bool()).unwrap_or(false),
                    positional_at: m.get("positional_at").and_then(|b| b.as_u64()).unwrap_or(0) as usize,
                    extra_args: m.get("extra_args").and_then(|a| a.as_array()).map(|a| a.iter().filter_map(s).collect()).unwrap_or_default(),
                })
            }
            _ => return Err("bad mode kind".into()),
        };
        let mut files = vec![];
        for f in v.get("files").and_then(|f| f.as_array()).cloned().unwrap_or_default() {
            files.push((
                f.get("path").and_then(s).ok_or("file path")?,
                unescape_bytes(f.get("content").and_then(|c| c.as_str()).ok_or("file content")?),
            ));
        }
        Ok(RunSpec {
            mode,
            dirs: v
                .get("dirs")
                .and_then(|d| d.as_array())
                .map(|a| a.iter().filter_map(s).collect())
                .unwrap_or_default(),
            files,
            stdin: v.get("stdin").and_then(|x| x.as_str()).map(unescape_bytes),
            stdin_pipe: v.get("stdin_pipe").and_then(|x| x.as_bool()).unwrap_or(false),
            fifos: v
                .get("fifos")
                .and_then(|f| f.as_array())
                .map(|a| a.iter().filter_map(|f| Some((f.get("path")?.as_str()?.to_string(), unescape_bytes(f.get("content")?.as_str()?)))).collect())
                .unwrap_or_default(),
            faults: v
                .get("faults")
                .and_then(|d| d.as_array())
                .map(|a| a.iter().filter_map(s).collect())
                .unwrap_or_default(),
            rand_seed: v
                .get("rand_seed")
                .and_then(|x| x.as_str())
                .and_then(|x| x.parse().ok())
                .unwrap_or(1),
            env: v
                .get("env")
                .and_then(|e| e.as_array())
                .map(|a| a.iter().filter_map(|p| Some((p.get(0)?.as_str()?.to_string(), p.get(1)?.as_str()?.to_string()))).collect())
                .unwrap_or_default(),
            prior: v
                .get("prior")
                .and_then(|e| e.as_array())
                .map(|a| a.iter().filter_map(|p| RunSpec::from_json(p).ok()).collect())
                .unwrap_or_default(),
        })
    }
}
