//! Workload: connection scripts and the explicit action schedule of one run.

use crate::http::*;
use simcommon::gen::{self, GenMask, Pool};
use simcommon::{json, Rng, Value};

#[derive(Clone, Debug, PartialEq)]
pub enum Action {
    Open(usize),
    /// deliver the next n bytes of the connection's script
    Deliver(usize, usize),
    /// let the server write n more bytes to this connection
    Drain(usize, usize),
    DrainAll(usize),
    /// client sends FIN (it may still read)
    HalfClose(usize),
    /// client closes: EOF for the server's reads, EPIPE for its writes
    Close(usize),
    /// RST: reads and writes fail
    Reset(usize),
    /// liveness probe: a fresh fault-free connection must get correct answers
    Probe,
    /// from here to the matching `Release` the actions are applied back to back,
    /// without letting the server run in between: their effects reach the server
    /// in the same scheduling round (requests really in flight together)
    Hold,
    Release,
    /// advance the (paused) clock by this many milliseconds: a slow but
    /// progressing client
    Tick(u64),
    /// the next accept() fails with this errno (EMFILE, ENFILE, ECONNABORTED).
    /// Only meaningful when the server runs its own accept loop; hyper's own
    /// listener handles these inside the part that is stubbed.
    AcceptError(i32),
    /// descriptor exhaustion: for this many simulated milliseconds every
    /// accept() fails with EMFILE (again only for a server with its own accept
    /// loop); time is advanced through the outage, then it ends
    AcceptOutage(u64),
}

#[derive(Clone, Debug, PartialEq)]
pub struct RunDesc {
    pub idx: u64,
    pub conns: Vec<Vec<ReqSpec>>,
    pub actions: Vec<Action>,
    pub hash_seed: u64,
}

impl Action {
    pub fn to_json(&self) -> Value {
        match self {
            Action::Open(c) => json!(["open", c]),
            Action::Deliver(c, n) => json!(["deliver", c, n]),
            Action::Drain(c, n) => json!(["drain", c, n]),
            Action::DrainAll(c) => json!(["drain-all", c]),
            Action::HalfClose(c) => json!(["half-close", c]),
            Action::Close(c) => json!(["close", c]),
            Action::Reset(c) => json!(["reset", c]),
            Action::Probe => json!(["probe"]),
            Action::Hold => json!(["hold"]),
            Action::Release => json!(["release"]),
            Action::Tick(ms) => json!(["tick", ms]),
            Action::AcceptError(e) => json!(["accept-error", e]),
            Action::AcceptOutage(ms) => json!(["accept-outage", ms]),
        }
    }
    pub fn from_json(v: &Value) -> Option<Action> {
        let a = v.as_array()?;
        let c = a.get(1).and_then(|x| x.as_u64()).unwrap_or(0) as usize;
        let n = a.get(2).and_then(|x| x.as_u64()).unwrap_or(0) as usize;
        Some(match a.first()?.as_str()? {
            "open" => Action::Open(c),
            "deliver" => Action::Deliver(c, n),
            "drain" => Action::Drain(c, n),
            "drain-all" => Action::DrainAll(c),
            "half-close" => Action::HalfClose(c),
            "close" => Action::Close(c),
            "reset" => Action::Reset(c),
            "probe" => Action::Probe,
            "hold" => Action::Hold,
            "release" => Action::Release,
            "tick" => Action::Tick(c as u64),
            "accept-error" => Action::AcceptError(c as i32),
            "accept-outage" => Action::AcceptOutage(c as u64),
            _ => return None,
        })
    }
    pub fn conn(&self) -> Option<usize> {
        match self {
            Action::Open(c) | Action::Deliver(c, _) | Action::Drain(c, _) | Action::DrainAll(c) | Action::HalfClose(c) | Action::Close(c) | Action::Reset(c) => Some(*c),
            Action::Probe | Action::Hold | Action::Release | Action::Tick(_) | Action::AcceptError(_) | Action::AcceptOutage(_) => None,
        }
    }
    pub fn is_fault(&self) -> bool {
        matches!(self, Action::HalfClose(_) | Action::Close(_) | Action::Reset(_))
    }
}

impl RunDesc {
    pub fn to_json(&self) -> Value {
        json!({
            "idx": self.idx,
            "hash_seed": self.hash_seed.to_string(),
            "conns": self.conns.iter().map(|c| c.iter().map(|r| r.to_json()).collect::<Vec<_>>()).collect::<Vec<_>>(),
            "actions": self.actions.iter().map(|a| a.to_json()).collect::<Vec<_>>(),
        })
    }
    pub fn from_json(v: &Value) -> RunDesc {
        RunDesc {
            idx: v.get("idx").and_then(|x| x.as_u64()).unwrap_or(0),
            hash_seed: v.get("hash_seed").and_then(|x| x.as_str()).and_then(|s| s.parse().ok()).unwrap_or(1),
            conns: v
                .get("conns")
                .and_then(|c| c.as_array())
                .map(|a| a.iter().map(|c| c.as_array().map(|r| r.iter().map(ReqSpec::from_json).collect()).unwrap_or_default()).collect())
                .unwrap_or_default(),
            actions: v
                .get("actions")
                .and_then(|c| c.as_array())
                .map(|a| a.iter().filter_map(Action::from_json).collect())
                .unwrap_or_default(),
        }
    }
}

const RAW_MALFORMED: &[&[u8]] = &[
    b"GARBAGE\r\n\r\n",
    b"GET /\r\n\r\n",
    b"POST / HTTP/1.1\r\nHost: x\r\nContent-Length: abc\r\n\r\n",
    b"POST / HTTP/1.1\r\nHost: x\r\nContent-Length: -1\r\n\r\n",
    b"POST / HTTP/1.1\r\nHost: x\r\nContent-Length: 3\r\nContent-Length: 4\r\n\r\nabcd",
    b"POST / HTTP/1.1\r\nHost: x\r\nTransfer-Encoding: chunked\r\n\r\nZZ\r\nabc\r\n0\r\n\r\n",
    b"POST / HTTP/1.1\r\nHost: x\r\nTransfer-Encoding: chunked\r\n\r\n3\r\nabcXX0\r\n\r\n",
    b"\x16\x03\x01\x02\x00\x01\x00\x01\xfc\x03\x03",
    b"PRI * HTTP/2.0\r\n\r\nSM\r\n\r\n",
    b"GET / HTTP/1.1\r\nHost x\r\n\r\n",
    b"GET / HTTP/1.1\r\nHost: a\r\n bad-continuation\r\n\r\n",
    b"GET / HTTP/9.9\r\nHost: a\r\n\r\n",
    b"GET /\x00 HTTP/1.1\r\nHost: a\r\n\r\n",
    b"\r\n\r\n\r\n",
    b"POST / HTTP/1.1\r\nHost: x\r\nTransfer-Encoding: gzip\r\n\r\nabc",
    b"GET http://[::1/ HTTP/1.1\r\n\r\n",
];

pub struct RunGen<'a> {
    pub pool: &'a Pool,
    pub big_files: Vec<String>,
    pub thorough: bool,
}

fn extra_headers(rng: &mut Rng) -> Vec<(String, String)> {
    // None of these may change the answer: the contract is a function of the body.
    const POOL: &[(&str, &[&str])] = &[
        ("Content-Type", &["text/plain", "application/json", "application/octet-stream", "text/plain; charset=utf-8", "text/plain; charset=iso-8859-1", "text/plain; charset=utf-16", "application/x-www-form-urlencoded", "multipart/form-data; boundary=x", "image/svg+xml"]),
        ("Accept", &["*/*", "image/svg+xml", "text/html", "application/json", "text/plain;q=0.9, */*;q=0.1"]),
        ("Accept-Encoding", &["gzip, br", "identity", "deflate", "*"]),
        ("Content-Encoding", &["identity"]),
        ("User-Agent", &["sim/1.0", "curl/8.0", "Mozilla/5.0"]),
        ("Connection", &["keep-alive"]),
        ("X-Forwarded-For", &["10.0.0.1", "::1"]),
        ("X-Forwarded-Proto", &["https"]),
        ("Origin", &["http://evil.invalid", "null"]),
        ("Referer", &["http://sim.invalid/page"]),
        ("Range", &["bytes=0-9", "bytes=100-"]),
        ("If-None-Match", &["*", "\"abc\""]),
        ("If-Modified-Since", &["Wed, 21 Oct 2015 07:28:00 GMT"]),
        ("Cache-Control", &["no-cache", "max-age=0"]),
        ("Cookie", &["session=1"]),
        ("Authorization", &["Bearer x"]),
        ("Accept-Language", &["de", "en-US,en;q=0.5"]),
        ("X-Requested-With", &["XMLHttpRequest"]),
        ("Pragma", &["no-cache"]),
        ("TE", &["trailers"]),
        ("Upgrade-Insecure-Requests", &["1"]),
        ("DNT", &["1"]),
    ];
    let mut h = vec![];
    let n = match rng.below(10) {
        0..=3 => 0,
        4..=7 => rng.urange(1, 3),
        _ => rng.urange(3, 8),
    };
    for _ in 0..n {
        let (k, vs) = rng.pick(POOL);
        if !h.iter().any(|(hk, _): &(String, String)| hk == k) {
            h.push((k.to_string(), rng.pick(vs).to_string()));
        }
    }
    h
}

fn chunk_sizes(rng: &mut Rng, len: usize) -> Vec<usize> {
    if len == 0 {
        return vec![];
    }
    let style = rng.below(5);
    let mut v = vec![];
    let mut left = len;
    while left > 0 {
        let s = match style {
            0 => left,
            1 => 1,
            2 => rng.urange(1, 7),
            3 => rng.urange(1, 64),
            _ => rng.urange(1, left),
        }
        .min(left);
        v.push(s);
        left -= s;
        if v.len() > 4000 {
            v.push(left);
            break;
        }
    }
    v
}

fn invalid_utf8(rng: &mut Rng, base: &str) -> Vec<u8> {
    let mut b = base.as_bytes().to_vec();
    let bad: &[&[u8]] = &[&[0xff], &[0xc3, 0x28], &[0xe2, 0x82], &[0xf0, 0x9f, 0x98], &[0x80], &[0xed, 0xa0, 0x80]];
    let ins = *rng.pick(bad);
    let at = match rng.below(3) {
        0 => 0,
        1 => b.len(),
        _ => rng.usize_below(b.len() + 1),
    };
    for (k, x) in ins.iter().enumerate() {
        b.insert(at + k, *x);
    }
    if std::str::from_utf8(&b).is_ok() {
        b.push(0xff);
    }
    b
}

impl<'a> RunGen<'a> {
    fn gen_body(&self, rng: &mut Rng, mask: GenMask, bodies: &mut Vec<String>) -> String {
        let t = match rng.below(20) {
            0..=5 if !bodies.is_empty() => return rng.pick(bodies).clone(),
            6..=9 if !bodies.is_empty() => {
                let base = rng.pick(bodies).clone();
                gen::sibling(rng, &base)
            }
            10 => String::new(),
            11 => match rng.below(6) {
                0 => rng.pick(gen::HOSTILE).to_string(),
                1 => format!("text={}&x=1", rng.pick(&["%2B--%2B", "+--+", "a%0Ab"])),
                2 => format!("{{\"text\": \"+--+\\n|  |\\n+--+\", \"n\": {}}}", rng.below(100)),
                3 => format!("+-\0-+\n|{}|\n", rng.below(10)),
                4 => "\u{feff}+--+\r\n|  |\r\n+--+\r\n".to_string(),
                _ => "  \n\n\t\n".to_string(),
            },
            14 if rng.chance(1, 3) => {
                // larger than typical internal thresholds (64 KiB), cheap to convert
                let (t, _) = gen::gen_input(rng, self.pool, mask);
                gen::pad_to(&t, *rng.pick(&[65_535usize, 65_536, 65_537, 131_073, 300_000]))
            }
            12 => {
                // non-ASCII text: multi-byte characters that segment boundaries can cut
                let (t, _) = gen::gen_input(rng, self.pool, GenMask(gen::G_UNICODE | gen::G_TEXT));
                format!("é文😀 {}", t)
            }
            13 if self.thorough || rng.chance(1, 6) => {
                if !self.big_files.is_empty() && rng.chance(1, 3) {
                    rng.pick(&self.big_files).clone()
                } else {
                    gen::gen_input(rng, self.pool, GenMask(gen::G_FILE)).0
                }
            }
            _ => gen::gen_input(rng, self.pool, mask).0,
        };
        if bodies.len() < 24 {
            bodies.push(t.clone());
        }
        t
    }

    fn gen_req(&self, rng: &mut Rng, mask: GenMask, bodies: &mut Vec<String>) -> ReqSpec {
        let get = |headers| ReqSpec { method: "GET".into(), path: "/".into(), version: "1.1".into(), headers, body: BodySpec::None, framing: Framing::None, raw: None };
        let post = |body: Vec<u8>, framing: Framing, headers| ReqSpec { method: "POST".into(), path: "/".into(), version: "1.1".into(), headers, body: BodySpec::Bytes(body), framing, raw: None };
        // the 2 MiB boundary is part of the contract: exercised in every tier, at
        // most once per run (bodies.len() doubles as "early in the run" here)
        let boundary = if self.thorough || bodies.len() < 2 { 1 } else { 0 };
        // answers above 1 MiB (thorough tier: such a conversion takes ~10 s): many
        // small captions with multi-byte characters, i.e. a large document that is
        // non-ASCII all over
        if self.thorough && rng.chance(1, 20_000) {
            let unit = format!("{}\n", *rng.pick(&["é  ", "文   ", "o  é  ", "ü ö  "])).repeat(1);
            let line = unit.trim_end().repeat(40) + "\n";
            let times = 115_000 / line.len() + rng.usize_below(40);
            return ReqSpec { method: "POST".into(), path: "/".into(), version: "1.1".into(), headers: vec![], body: BodySpec::Repeat { unit: line, times }, framing: Framing::ContentLength, raw: None };
        }
        let k = rng.weighted(&[15, 35, 12, 8, 4, 4, 3, 6, 5, 2, 3, boundary]);
        match k {
            0 => get(extra_headers(rng)),
            1 => {
                let b = self.gen_body(rng, mask, bodies);
                post(b.into_bytes(), Framing::ContentLength, extra_headers(rng))
            }
            2 => {
                let b = self.gen_body(rng, mask, bodies).into_bytes();
                let cs = chunk_sizes(rng, b.len());
                post(b, Framing::Chunked(cs), extra_headers(rng))
            }
            3 => {
                let b = self.gen_body(rng, mask, bodies);
                let bytes = invalid_utf8(rng, &b);
                if rng.chance(1, 3) {
                    let cs = chunk_sizes(rng, bytes.len());
                    post(bytes, Framing::Chunked(cs), extra_headers(rng))
                } else {
                    post(bytes, Framing::ContentLength, extra_headers(rng))
                }
            }
            4 => {
                let b = self.gen_body(rng, mask, bodies);
                let mut h = extra_headers(rng);
                h.push(("Expect".into(), "100-continue".into()));
                post(b.into_bytes(), Framing::ContentLength, h)
            }
            5 => {
                // HTTP/1.0, with or without keep-alive
                let mut h = vec![];
                if rng.chance(1, 2) {
                    h.push(("Connection".to_string(), "keep-alive".to_string()));
                }
                if rng.chance(1, 2) {
                    let mut r = get(h);
                    r.version = "1.0".into();
                    r
                } else {
                    let b = self.gen_body(rng, mask, bodies);
                    let mut r = post(b.into_bytes(), Framing::ContentLength, h);
                    r.version = "1.0".into();
                    r
                }
            }
            6 => {
                let mut r = get(extra_headers(rng));
                r.method = "HEAD".into();
                r
            }
            7 => {
                // other methods and paths
                let (m, p) = *rng.pick(&[("PUT", "/"), ("DELETE", "/"), ("PATCH", "/"), ("OPTIONS", "/"), ("GET", "/x"), ("POST", "/x"), ("GET", "/?q=1"), ("POST", "//"), ("GET", "/index.html"), ("TRACE", "/")]);
                let with_body = matches!(m, "PUT" | "PATCH" | "POST");
                let b = if with_body { self.gen_body(rng, mask, bodies).into_bytes() } else { vec![] };
                ReqSpec {
                    method: m.into(),
                    path: p.into(),
                    version: "1.1".into(),
                    headers: extra_headers(rng),
                    body: if with_body { BodySpec::Bytes(b) } else { BodySpec::None },
                    framing: if with_body { Framing::ContentLength } else { Framing::None },
                    raw: None,
                }
            }
            8 => {
                let mut h = extra_headers(rng);
                h.push(("Connection".into(), "close".into()));
                if rng.chance(1, 2) {
                    get(h)
                } else {
                    let b = self.gen_body(rng, mask, bodies);
                    post(b.into_bytes(), Framing::ContentLength, h)
                }
            }
            9 => {
                let b = self.gen_body(rng, mask, bodies).into_bytes();
                let n = if rng.chance(1, 2) { b.len() + rng.urange(1, 50) } else { b.len().saturating_sub(rng.urange(1, 5)) };
                post(b, Framing::Lying(n), vec![])
            }
            10 => {
                let mut raw = rng.pick(RAW_MALFORMED).to_vec();
                if rng.chance(1, 8) {
                    // oversized header block
                    raw = b"GET / HTTP/1.1\r\nHost: a\r\n".to_vec();
                    let n = *rng.pick(&[120usize, 2000]);
                    for i in 0..n {
                        raw.extend_from_slice(format!("X-H{}: {}\r\n", i, "v".repeat(60)).as_bytes());
                    }
                    raw.extend_from_slice(b"\r\n");
                }
                ReqSpec { method: "RAW".into(), path: "".into(), version: "1.1".into(), headers: vec![], body: BodySpec::None, framing: Framing::None, raw: Some(raw) }
            }
            _ => {
                // around the 2 MiB limit: cheap to convert (blank lines) but full size on the wire
                let tail = "+--+\n|  |\n+--+\n".to_string();
                let total = match rng.below(3) {
                    0 => BODY_LIMIT,
                    1 => BODY_LIMIT + 1,
                    _ => BODY_LIMIT - 1,
                };
                let framing = if rng.chance(1, 4) { Framing::Chunked(vec![65536; 40]) } else { Framing::ContentLength };
                ReqSpec {
                    method: "POST".into(),
                    path: "/".into(),
                    version: "1.1".into(),
                    headers: vec![],
                    body: BodySpec::Fill { byte: b'\n', len: total - tail.len(), tail },
                    framing,
                    raw: None,
                }
            }
        }
    }

    /// A long, mostly sequential history dominated by one kind of event: the
    /// shape that exposes per-event leaks (a counter, permit or worker lost on
    /// every bad request / aborted connection) which only bite after N events.
    fn gen_soak(&self, rng: &mut Rng, idx: u64) -> RunDesc {
        let kind = rng.below(9);
        let n_events = *rng.pick(&[70usize, 130, 260, 520]);
        let small = |i: usize| format!("+--+\n|{:>2}|\n+--+\n", i % 97).into_bytes();
        let post = |body: Vec<u8>| ReqSpec { method: "POST".into(), path: "/".into(), version: "1.1".into(), headers: vec![], body: BodySpec::Bytes(body), framing: Framing::ContentLength, raw: None };
        let get = |path: &str| ReqSpec { method: "GET".into(), path: path.into(), version: "1.1".into(), headers: vec![], body: BodySpec::None, framing: Framing::None, raw: None };
        let mut conns: Vec<Vec<ReqSpec>> = vec![];
        let mut actions = vec![];
        let mut made = 0;
        while made < n_events {
            let c = conns.len();
            let mut reqs = vec![];
            let mut fault: Option<Action> = None;
            let mut cut: Option<usize> = None;
            match kind {
                // keep-alive histories of one request kind, a few dozen per connection
                0..=3 => {
                    let per = if rng.chance(1, 4) { n_events - made } else { rng.urange(8, 60).min(n_events - made) };
                    for i in 0..per {
                        let r = if rng.chance(1, 10) {
                            get("/")
                        } else {
                            match kind {
                                0 => {
                                    let mut b = small(made + i);
                                    b.insert(rng.usize_below(b.len() + 1), 0xff);
                                    post(b)
                                }
                                1 => post(small(made + i)),
                                2 => get("/"),
                                _ => get("/nothing-here"),
                            }
                        };
                        reqs.push(r);
                    }
                    made += per;
                }
                // one connection per event, each disturbed by the client
                4 => {
                    reqs.push(post(small(made)));
                    let total = reqs[0].to_bytes().len();
                    cut = Some(rng.urange(1, total - 1));
                    fault = Some(if rng.chance(1, 2) { Action::Close(c) } else { Action::Reset(c) });
                    made += 1;
                }
                5 => {
                    // complete request, connection dropped before the answer is read
                    reqs.push(post(small(made)));
                    fault = Some(if rng.chance(1, 2) { Action::Close(c) } else { Action::Reset(c) });
                    made += 1;
                }
                6 => {
                    reqs.push(post(small(made)));
                    fault = Some(Action::HalfClose(c));
                    made += 1;
                }
                7 => {
                    let raw = rng.pick(RAW_MALFORMED).to_vec();
                    reqs.push(ReqSpec { method: "RAW".into(), path: "".into(), version: "1.1".into(), headers: vec![], body: BodySpec::None, framing: Framing::None, raw: Some(raw) });
                    made += 1;
                }
                _ => {
                    // a library panic per request would be C01's business; here: bodies with hostile markup
                    reqs.push(post(rng.pick(gen::HOSTILE).as_bytes().to_vec()));
                    made += 1;
                }
            }
            let total: usize = reqs.iter().map(|r| r.to_bytes().len()).sum();
            actions.push(Action::Open(c));
            let disturbed_before_answer = matches!(kind, 5) && fault.is_some();
            if !disturbed_before_answer {
                actions.push(Action::DrainAll(c));
            }
            match cut {
                Some(k) => actions.push(Action::Deliver(c, k)),
                None => actions.push(Action::Deliver(c, total)),
            }
            if let Some(f) = fault {
                actions.push(f);
            }
            if rng.chance(1, 40) {
                actions.push(Action::Probe);
            }
            conns.push(reqs);
        }
        RunDesc { idx, conns, actions, hash_seed: rng.next_u64() | 1 }
    }

    /// Several clients send the very same request at the very same time, and
    /// some of them go away while it is being worked on (shared or coalesced
    /// work must not hand one client another one's failure or answer).
    fn gen_twins(&self, rng: &mut Rng, idx: u64) -> RunDesc {
        let mask = GenMask(GenMask::swarm(rng).0 & !gen::G_FILE);
        let mut bodies = vec![];
        let body = self.gen_body(rng, mask, &mut bodies).into_bytes();
        let k = rng.urange(2, 4);
        let post = |b: Vec<u8>| ReqSpec { method: "POST".into(), path: "/".into(), version: "1.1".into(), headers: vec![], body: BodySpec::Bytes(b), framing: Framing::ContentLength, raw: None };
        let mut conns = vec![];
        for i in 0..k {
            let mut reqs = vec![post(body.clone())];
            if i == k - 1 && rng.chance(1, 2) {
                // a different request right behind, on the same connection
                reqs.push(post(self.gen_body(rng, mask, &mut bodies).into_bytes()));
            }
            conns.push(reqs);
        }
        let mut actions = vec![];
        for c in 0..k {
            actions.push(Action::Open(c));
        }
        // who goes away: at least one stays
        let leavers: Vec<usize> = (0..k - 1).filter(|_| rng.chance(2, 3)).collect();
        for c in 0..k {
            if !leavers.contains(&c) {
                actions.push(Action::DrainAll(c));
            }
        }
        actions.push(Action::Hold);
        for (c, reqs) in conns.iter().enumerate() {
            let total: usize = reqs.iter().map(|r| r.to_bytes().len()).sum();
            actions.push(Action::Deliver(c, total));
        }
        actions.push(Action::Release);
        for c in &leavers {
            actions.push(match rng.below(3) {
                0 => Action::Close(*c),
                1 => Action::Reset(*c),
                _ => Action::HalfClose(*c),
            });
        }
        actions.push(Action::Probe);
        RunDesc { idx, conns, actions, hash_seed: rng.next_u64() | 1 }
    }

    /// Many clients that have started an upload and then sit there (headers
    /// sent, body incomplete, connection open): whatever they hold — slots,
    /// permits, workers — other clients must still be served.
    fn gen_stalled_uploads(&self, rng: &mut Rng, idx: u64) -> RunDesc {
        let k = *rng.pick(&[8usize, 9, 12, 16, 17, 33, 70]);
        let mut conns = vec![];
        let mut actions = vec![];
        for c in 0..k {
            let body = format!("+--+\n|{:>2}|\n+--+\n{}", c % 100, " \n".repeat(rng.urange(1, 40))).into_bytes();
            let framing = if rng.chance(1, 4) { Framing::Chunked(vec![4, 4, 4]) } else { Framing::ContentLength };
            let req = ReqSpec { method: "POST".into(), path: "/".into(), version: "1.1".into(), headers: vec![], body: BodySpec::Bytes(body), framing, raw: None };
            let bytes = req.to_bytes();
            let head = bytes.windows(4).position(|w| w == b"\r\n\r\n").map(|p| p + 4).unwrap_or(bytes.len());
            // all of the head, some (not all) of the body
            let sent = head + rng.usize_below((bytes.len() - head).max(1));
            actions.push(Action::Open(c));
            actions.push(Action::DrainAll(c));
            actions.push(Action::Deliver(c, sent.min(bytes.len() - 1)));
            conns.push(vec![req]);
            if rng.chance(1, 10) {
                actions.push(Action::Tick(rng.range(50, 400)));
            }
        }
        actions.push(Action::Probe);
        RunDesc { idx, conns, actions, hash_seed: rng.next_u64() | 1 }
    }

    pub fn gen_run(&self, seed: u64, idx: u64) -> RunDesc {
        let mut rng = Rng::new(simcommon::mix(seed, "c20-run", idx));
        if rng.chance(1, 12) {
            return self.gen_soak(&mut rng, idx);
        }
        if rng.chance(1, 20) {
            return self.gen_stalled_uploads(&mut rng, idx);
        }
        if rng.chance(1, 12) {
            return self.gen_twins(&mut rng, idx);
        }
        let mask = GenMask(GenMask::swarm(&mut rng).0 & !gen::G_FILE);
        let n_conns = match rng.below(20) {
            0..=4 => 1,
            5..=13 => rng.urange(2, 4),
            14..=17 => rng.urange(5, 8),
            _ => rng.urange(9, 16),
        };
        let faults_enabled = rng.chance(7, 10);
        let mut bodies: Vec<String> = vec![];
        let mut conns: Vec<Vec<ReqSpec>> = vec![];
        let mut per_conn: Vec<Vec<Action>> = vec![];
        for c in 0..n_conns {
            let n_req = if n_conns > 8 { rng.urange(1, 2) } else { rng.urange(1, 4) };
            let mut reqs = vec![];
            for _ in 0..n_req {
                let r = self.gen_req(&mut rng, mask, &mut bodies);
                let ka = r.keeps_alive();
                let oversize = r.body.bytes().len() > BODY_LIMIT;
                let unspecified = !(r.method == "GET" || r.method == "POST") || r.path != "/";
                reqs.push(r);
                if !ka || oversize || unspecified {
                    break;
                }
            }
            let total: usize = reqs.iter().map(|r| r.to_bytes().len()).sum();
            let mut acts = vec![Action::Open(c)];
            // window policy
            let unlimited = rng.chance(1, 2);
            if unlimited {
                acts.push(Action::DrainAll(c));
            }
            // delivery policy
            let mut left = total;
            let style = rng.below(10);
            let req_lens: Vec<usize> = reqs.iter().map(|r| r.to_bytes().len()).collect();
            let mut ri = 0;
            let mut pieces = 0;
            while left > 0 {
                let n = match style {
                    0..=2 => left,
                    3..=4 => {
                        let n = req_lens[ri.min(req_lens.len() - 1)];
                        ri += 1;
                        n
                    }
                    5..=7 => {
                        let hi = *rng.pick(&[2usize, 5, 17, 100, 1000]);
                        rng.urange(1, hi)
                    }
                    8 if total < 600 => 1,
                    _ => rng.urange(1, 40),
                }
                .min(left)
                .max(1);
                pieces += 1;
                // keep schedules bounded: after many small pieces deliver the rest
                let n = if pieces > 300 { left } else { n };
                acts.push(Action::Deliver(c, n));
                left -= n;
                if !unlimited && rng.chance(1, 3) {
                    acts.push(Action::Drain(c, *rng.pick(&[1usize, 8, 15, 100, 1000, 100_000])));
                }
            }
            // faults
            let mut faulted = false;
            if faults_enabled && rng.chance(3, 10) {
                faulted = true;
                let kind = rng.below(6);
                match kind {
                    0 | 1 => {
                        // abort somewhere inside the request stream
                        let deliver_idx: Vec<usize> = acts.iter().enumerate().filter(|(_, a)| matches!(a, Action::Deliver(..))).map(|(i, _)| i).collect();
                        let cut = *rng.pick(&deliver_idx);
                        // split the chosen delivery at a random byte
                        if let Action::Deliver(_, n) = acts[cut].clone() {
                            let k = rng.usize_below(n + 1);
                            acts.truncate(cut);
                            if k > 0 {
                                acts.push(Action::Deliver(c, k));
                            }
                        }
                        acts.push(if kind == 0 { Action::Close(c) } else { Action::Reset(c) });
                    }
                    2 => acts.push(Action::HalfClose(c)), // FIN right after the complete request
                    3 => {
                        // let j response bytes out, then reset
                        acts.retain(|a| !matches!(a, Action::DrainAll(_)));
                        acts.push(Action::Drain(c, rng.urange(0, 400)));
                        acts.push(Action::Reset(c));
                    }
                    4 => {
                        // stall: never deliver the rest, never close
                        let keep = rng.urange(1, acts.len());
                        acts.truncate(keep);
                    }
                    _ => {
                        acts.retain(|a| !matches!(a, Action::DrainAll(_)));
                        acts.push(Action::Drain(c, rng.urange(0, 400)));
                        acts.push(Action::Close(c));
                    }
                }
            }
            if !faulted && !unlimited {
                acts.push(Action::DrainAll(c));
            }
            conns.push(reqs);
            per_conn.push(acts);
        }
        // random merge preserving per-connection order
        let mut actions: Vec<Action> = vec![];
        let mut pos = vec![0usize; n_conns];
        let burst = rng.chance(1, 4); // open everything first
        if burst {
            for c in 0..n_conns {
                actions.push(per_conn[c][0].clone());
                pos[c] = 1;
            }
        }
        loop {
            let live: Vec<usize> = (0..n_conns).filter(|c| pos[*c] < per_conn[*c].len()).collect();
            if live.is_empty() {
                break;
            }
            let c = *rng.pick(&live);
            // run a few consecutive actions of one connection with some probability
            let k = if rng.chance(1, 3) { rng.urange(1, 6) } else { 1 };
            for _ in 0..k {
                if pos[c] < per_conn[c].len() {
                    let a = per_conn[c][pos[c]].clone();
                    pos[c] += 1;
                    let f = a.is_fault();
                    actions.push(a);
                    if f && rng.chance(1, 2) {
                        actions.push(Action::Probe);
                    }
                }
            }
        }
        // accept() failures (descriptor exhaustion, aborted handshakes)
        if rng.chance(1, 6) {
            for _ in 0..rng.urange(1, 3) {
                let at = rng.usize_below(actions.len() + 1);
                actions.insert(at, Action::AcceptError(*rng.pick(&[24, 23, 103])));
            }
        }
        if rng.chance(1, 10) {
            let at = rng.usize_below(actions.len() + 1);
            actions.insert(at, Action::Probe);
            actions.insert(at, Action::AcceptOutage(*rng.pick(&[2_000u64, 20_000, 45_000, 90_000])));
        }
        // slow clients: in some runs time passes between deliveries (at most a few
        // seconds in total, far below any sane server-side timeout)
        if rng.chance(1, 5) {
            let mut out = vec![];
            let mut budget_ms = 8_000u64;
            for a in actions {
                let is_deliver = matches!(a, Action::Deliver(..));
                out.push(a);
                if is_deliver && budget_ms > 0 && rng.chance(1, 4) {
                    let ms = rng.range(50, 900).min(budget_ms);
                    budget_ms -= ms;
                    out.push(Action::Tick(ms));
                }
            }
            actions = out;
        }
        // batches: some windows of consecutive actions reach the server together
        if rng.chance(2, 5) {
            let mut out = vec![];
            let mut i = 0;
            while i < actions.len() {
                if rng.chance(1, 6) && !matches!(actions[i], Action::Probe | Action::Tick(_) | Action::AcceptError(_) | Action::AcceptOutage(_)) {
                    let k = rng.urange(2, 5).min(actions.len() - i);
                    if actions[i..i + k].iter().all(|a| !matches!(a, Action::Probe | Action::Tick(_) | Action::AcceptError(_) | Action::AcceptOutage(_))) {
                        out.push(Action::Hold);
                        out.extend(actions[i..i + k].iter().cloned());
                        out.push(Action::Release);
                        i += k;
                        continue;
                    }
                }
                out.push(actions[i].clone());
                i += 1;
            }
            actions = out;
        }
        RunDesc { idx, conns, actions, hash_seed: rng.next_u64() | 1 }
    }
}
