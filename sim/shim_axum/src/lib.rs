//! `axum` as seen by svgbob_server in the simulation build.
pub use real_axum::*;

/// `axum::Server` (= `hyper::Server`) with its constructors redirected to the
/// simulator. The returned builder is hyper's own, so
/// `.serve(app.into_make_service())` runs hyper's real accept loop, HTTP/1
/// state machine and axum's router.
pub struct Server;

type SimBuilder = hyper::server::Builder<svgbob_verif_srvsim::net::SimIncoming>;

impl Server {
    pub fn bind(addr: &std::net::SocketAddr) -> SimBuilder {
        hyper::Server::builder(svgbob_verif_srvsim::install(*addr))
    }

    pub fn try_bind(addr: &std::net::SocketAddr) -> Result<SimBuilder, hyper::Error> {
        Ok(Self::bind(addr))
    }

    /// A listener created by the caller: only its address is used.
    pub fn from_tcp(listener: std::net::TcpListener) -> Result<SimBuilder, hyper::Error> {
        let addr = listener.local_addr().unwrap_or_else(|_| ([0, 0, 0, 0], 3000).into());
        drop(listener);
        Ok(Self::bind(&addr))
    }
}
