#!/bin/bash
# Run the registered quick check of a seed's property against /repo with the
# seeded change applied, then undo the change. One line per seed on stdout.
# usage: tools/run_seeded.sh [quick|thorough] seeded/<id>...
tier=${1:-quick}; shift
cd "$(dirname "$0")/.." || exit 2
for d in "$@"; do
  id=$(basename "$d"); prop=${id%%-*}
  git -C /repo checkout -q -- . 
  if ! git -C /repo apply "$(readlink -f "$d")/patch.diff"; then echo "$id apply=FAILED"; continue; fi
  t0=$(date +%s)
  timeout 1800 ./check "$prop" "$tier" > "/tmp/seedrun-$id.out" 2> "/tmp/seedrun-$id.err"; rc=$?
  t1=$(date +%s)
  git -C /repo checkout -q -- .
  nv=$(grep -c '^VIOLATION' "/tmp/seedrun-$id.out")
  echo "$id check=$prop/$tier exit=$rc violations=$nv wall=$((t1-t0))s $(grep -m1 '^VIOLATION' /tmp/seedrun-$id.out)"
done
